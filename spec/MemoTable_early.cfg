SPECIFICATION Spec
CONSTANTS
  Keys = {k1, k2, k3}
  Vals = {k1, k2, k3}
  F <- MCF
  StoreOnEveryExit = FALSE
INVARIANTS Packrat Transparent
CHECK_DEADLOCK FALSE
