------------------------------ MODULE Bootstrap ------------------------------
(***************************************************************************)
(* C17: the bootstrapped grammar parser is a fixpoint of the generator.    *)
(*                                                                         *)
(* Stages: S0 = the front end shipped in codegen/src/grammar/generated.rs; *)
(* S(n+1) = Gen(generator built around S(n))(grammar.ebnf).  Observations  *)
(* recorded from real builds (ndjson, TRACE):                              *)
(*   stage {n, code}         digest of stage n's code (header removed)     *)
(*   read  {n, text, out}    what the front end of stage n made of a text  *)
(*                           (digest of the Debug tree, or of the error)   *)
(* The trace is accepted iff all stages carry the same code and every text *)
(* is read alike by every stage: the fixpoint, and observational equality  *)
(* of the shipped and the regenerated front end.                           *)
(***************************************************************************)
EXTENDS TraceReader

VARIABLES l, code, reads
vars == <<l, code, reads>>
Ev == Rec[l]

Init == l = 1 /\ code = "" /\ reads = <<>>

Stage ==
  /\ l <= Len(Rec) /\ Ev.ev = "stage"
  /\ code = "" \/ code = Ev.code              \* S0 = S1 = S2
  /\ code' = Ev.code
  /\ l' = l + 1 /\ UNCHANGED reads

Read ==
  /\ l <= Len(Rec) /\ Ev.ev = "read"
  /\ IF Ev.text \in DOMAIN reads THEN reads[Ev.text] = Ev.out /\ reads' = reads
     ELSE reads' = (Ev.text :> Ev.out) @@ reads
  /\ l' = l + 1 /\ UNCHANGED code

Next == Stage \/ Read
Spec == Init /\ [][Next]_vars
=============================================================================
