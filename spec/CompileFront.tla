---------------------------- MODULE CompileFront ----------------------------
(***************************************************************************)
(* C15: what the grammar compiler must answer for a grammar: generated     *)
(* code, or an error.  One predicate per documented restriction            *)
(* (doc/syntax.md; DESIGN appendix B); the verdict is "error" iff some     *)
(* restriction is violated.  Evaluated by TLC for every grammar of the     *)
(* F-bad corpus (violating grammars and their nearest valid neighbours);   *)
(* the harness asks the real compiler through its three doors.             *)
(***************************************************************************)
EXTENDS PegGrammar, PegCorpus, PegChars

NormalRules(g) == {ri \in 1..NumRules(g) : g.rules[ri].kind = "rule"}

\* include graph: rule -> rules its body includes (directly)
RuleNodes(g, ri) == {g.rules[ri].nodes[i] : i \in 1..Len(g.rules[ri].nodes)}
Includes(g, ri) == {g.nodes[e].ri : e \in {x \in RuleNodes(g, ri) : g.nodes[x].k = "inc"}}

\* R11: >R with R missing (ri = -2), @char or @extern
BadIncludeTarget(g) ==
  \E e \in 1..Len(g.nodes) : g.nodes[e].k = "inc" /\
      (g.nodes[e].ri < 1 \/ g.rules[g.nodes[e].ri].kind # "rule")

RECURSIVE IncReach(_, _)
IncReach(g, R) ==
  LET nxt == R \cup UNION {Includes(g, ri) : ri \in R} IN IF nxt = R THEN R ELSE IncReach(g, nxt)

\* R12a: a rule that (transitively) includes itself
IncludeCycle(g) == \E ri \in NormalRules(g) : ri \in IncReach(g, Includes(g, ri))

\* R1: named field or override inside a lookahead
FieldInLookahead(g) ==
  \E e \in 1..Len(g.nodes) : g.nodes[e].k \in {"neg", "pos"} /\ FieldsAlgo(g, g.nodes[e].b) # <<>>

HasOverride(fs) == \E i \in 1..Len(fs) : fs[i].name = "_override"
IsOverrideRule(fs) == Len(fs) = 1 /\ fs[1].name = "_override"

\* per rule
R2(g, ri) == LET fs == RuleFields(g, ri) IN ~g.rules[ri].string /\ HasOverride(fs) /\ ~IsOverrideRule(fs)
R3(g, ri) == LET fs == RuleFields(g, ri) IN
             ~g.rules[ri].string /\ IsOverrideRule(fs) /\ Cardinality(DOMAIN fs[1].tys) > 1 /\ fs[1].ar # "One"
R45(g, ri) == LET fs == RuleFields(g, ri) IN
              ~g.rules[ri].string /\ IsOverrideRule(fs) /\ Cardinality(DOMAIN fs[1].tys) <= 1
              /\ (g.rules[ri].export \/ g.rules[ri].position)
R6(g, ri) == g.rules[ri].string /\ g.rules[ri].export
R7(g, ri) == g.rules[ri].name = "Whitespace" /\ g.rules[ri].skip
\* (a @leftrec rule keeps its growth in the same kind of cache: it needs Clone just as @memoize does)
R8(g, ri) == (g.rules[ri].memoize \/ g.rules[ri].leftrec) /\ ~(\E i \in 1..Len(g.derives) : g.derives[i] = "Clone")

\* R9 / R10 on terminals
R9(g)  == \E e \in 1..Len(g.nodes) : g.nodes[e].k = "lit" /\ g.nodes[e].ci /\
             \E i \in 1..Len(g.nodes[e].s) : ~IsAscii(g.nodes[e].s[i])
BadCp(c) == ~IsScalar(c)
R10(g) == \/ \E e \in 1..Len(g.nodes) : g.nodes[e].k = "lit" /\ \E i \in 1..Len(g.nodes[e].s) : BadCp(g.nodes[e].s[i])
          \/ \E e \in 1..Len(g.nodes) : g.nodes[e].k = "range" /\ (BadCp(g.nodes[e].lo) \/ BadCp(g.nodes[e].hi))
          \/ \E ri \in 1..NumRules(g) : g.rules[ri].kind = "char" /\
                \E i \in 1..Len(g.rules[ri].parts) :
                   LET pt == g.rules[ri].parts[i] IN
                   \/ pt.k = "lit" /\ BadCp(pt.c)
                   \/ pt.k = "range" /\ (BadCp(pt.lo) \/ BadCp(pt.hi))

Violated(g) ==
  IF BadIncludeTarget(g) THEN {"R11"}
  ELSE IF IncludeCycle(g) THEN {"R12-cycle"}
  ELSE (IF FieldInLookahead(g) THEN {"R1"} ELSE {})
       \cup {"R2" : ri \in {r \in NormalRules(g) : ~FieldInLookahead(g) /\ R2(g, r)}}
       \cup {"R3" : ri \in {r \in NormalRules(g) : ~FieldInLookahead(g) /\ R3(g, r)}}
       \cup {"R4-5" : ri \in {r \in NormalRules(g) : ~FieldInLookahead(g) /\ R45(g, r)}}
       \cup {"R6" : ri \in {r \in NormalRules(g) : R6(g, r)}}
       \cup {"R7" : ri \in {r \in NormalRules(g) : R7(g, r)}}
       \cup {"R8" : ri \in {r \in NormalRules(g) : R8(g, r)}}
       \cup (IF R9(g) THEN {"R9"} ELSE {})
       \cup (IF R10(g) THEN {"R10"} ELSE {})
       \cup (IF g.badident THEN {"R12-ident"} ELSE {})
       \cup (IF g.badderive THEN {"R13-derive"} ELSE {})   \* an entry of the derive list that is no path of identifiers

Verdict(g) == IF Violated(g) = {} THEN "code" ELSE "error"

---------------------------------------------------------------------------
VARIABLE gi
Init == gi \in 1..Len(Grammars)
Next == UNCHANGED gi
Spec == Init /\ [][Next]_gi

Out == PrintT(<<"OUT", ToJson([g |-> Grammars[gi].id, verdict |-> Verdict(Grammars[gi]),
                               violated |-> Violated(Grammars[gi])])>>)
\* the generator's own expectation (it built the grammar to violate a restriction, or not) agrees
GeneratorAgrees == Grammars[gi].expect = Verdict(Grammars[gi])
=============================================================================
