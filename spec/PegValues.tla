----------------------------- MODULE PegValues -----------------------------
(***************************************************************************)
(* Result values and user-function oracles.                                *)
(*                                                                         *)
(* Every construct yields an ordered list of field matches                 *)
(*      [f |-> field name, t |-> type (rule) name, v |-> value]            *)
(* and a rule assembles its value from the matches of its body.            *)
(* Values mirror what derive(Debug) shows (so they can be compared with    *)
(* the real tree):                                                         *)
(*   struct        ("$" :> Name) @@ [field |-> value]                      *)
(*   enum variant  ("$" :> Variant) @@ ("0" :> value)                      *)
(*   Option        ("$" :> "None") / ("$" :> "Some") @@ ("0" :> v)         *)
(*   Vec           a sequence                                              *)
(*   String        ("$s" :> code points)      char  ("$c" :> code point)   *)
(*   Range         ("$r" :> <<from, to>>)                                  *)
(* Box is transparent.                                                     *)
(***************************************************************************)
EXTENDS PegChars, PegGrammar

VStr(cps)    == ("$s" :> cps)
VChar(c)     == ("$c" :> c)
VRange(a, b) == ("$r" :> <<a, b>>)
VNone        == ("$" :> "None")
VSome(v)     == ("$" :> "Some") @@ ("0" :> v)
VVariant(t, v) == ("$" :> t) @@ ("0" :> v)
VBad         == ("$" :> "#BAD-ARITY")

Match1(f, t, v) == [f |-> f, t |-> t, v |-> v]

MatchesOf(ms, f) == SelectSeq(ms, LAMBDA m : m.f = f)

\* assemble one field from its matches according to the rule-level descriptor
Assemble(fd, ms) ==
  LET multi   == Cardinality(DOMAIN fd.tys) > 1
      Wrap(m) == IF multi THEN VVariant(m.t, m.v) ELSE m.v
  IN CASE fd.ar = "One" -> IF Len(ms) = 1 THEN Wrap(ms[1]) ELSE VBad
       [] fd.ar = "Opt" -> IF ms = <<>> THEN VNone
                           ELSE IF Len(ms) = 1 THEN VSome(Wrap(ms[1])) ELSE VBad
       [] fd.ar = "Mul" -> [i \in 1..Len(ms) |-> Wrap(ms[i])]

\* the number of matches fits the declared arity (C02 / C03 CountSound)
CountFits(fd, ms) ==
  CASE fd.ar = "One" -> Len(ms) = 1
    [] fd.ar = "Opt" -> Len(ms) <= 1
    [] OTHER         -> TRUE

IsOverrideTable(fs) == Len(fs) = 1 /\ fs[1].name = "_override"

\* value of rule ri matched over [p0, p1) with body matches ms
Build(g, t, ri, fs, ms, p0, p1) ==
  LET r   == g.rules[ri]
      pos == IF r.position THEN ("position" :> VRange(p0, p1)) ELSE <<>>
  IN IF r.string
     THEN IF r.position
          THEN ("$" :> r.name) @@ ("string" :> VStr(Slice(t, p0, p1))) @@ pos
          ELSE VStr(Slice(t, p0, p1))
     ELSE IF IsOverrideTable(fs)
     THEN Assemble(fs[1], MatchesOf(ms, "_override"))
     ELSE ("$" :> r.name)
          @@ [f \in {fs[i].name : i \in 1..Len(fs)} |->
                 Assemble(fs[FieldIdx(fs, f)], MatchesOf(ms, f))]
          @@ pos

CountSoundAt(fs, ms) ==
  \A i \in 1..Len(fs) : CountFits(fs[i], MatchesOf(ms, fs[i].name))

---------------------------------------------------------------------------
(* User functions (mirrored in harness/common/src/oracles.rs)             *)
---------------------------------------------------------------------------
RECURSIVE DigitRun(_)
DigitRun(cps) == IF cps # <<>> /\ Head(cps) \in 48..57 THEN <<Head(cps)>> \o DigitRun(Tail(cps)) ELSE <<>>

\* @extern functions: applied to the remaining input (code points);
\* result [ok, v, n (bytes), msg]
ExtOk(v, n)  == [ok |-> TRUE, v |-> v, n |-> n, msg |-> "", panic |-> FALSE]
ExtErr(msg)  == [ok |-> FALSE, v |-> <<>>, n |-> 0, msg |-> msg, panic |-> FALSE]
\* the user's function panics: the panic unwinds through the parser to the caller of parse()
ExtPanic     == [ok |-> FALSE, v |-> <<>>, n |-> 0, msg |-> "panic", panic |-> TRUE]

ExternOracle(fn, rest) ==
  CASE fn.o = "digits" -> LET d == DigitRun(rest) IN
                          IF d = <<>> THEN ExtErr("expected digits") ELSE ExtOk(VStr(d), Len(d))
    [] fn.o = "two"    -> IF Len(rest) < 2 THEN ExtErr("expected two characters")
                          ELSE ExtOk(VStr(SubSeq(rest, 1, 2)), W(rest[1]) + W(rest[2]))
    [] fn.o = "zero"   -> ExtOk(VStr(<<>>), 0)
    [] fn.o = "fail"   -> ExtErr("always fails")
    [] fn.o = "upper"  -> IF rest # <<>> /\ rest[1] \in 65..90 THEN ExtOk(VChar(rest[1]), 1)
                          ELSE ExtErr("expected upper case letter")
    [] fn.o = "skip4g" -> ExtErr("expected 4 GiB of filler")   \* (no input of the model is that long)
    [] fn.o = "bang"   -> IF rest # <<>> /\ rest[1] = 33 THEN ExtPanic            \* '!': the function panics
                          ELSE LET d == DigitRun(rest) IN
                               IF d = <<>> THEN ExtErr("expected digits") ELSE ExtOk(VStr(d), Len(d))

\* @check functions on rule values
CheckOracle(fn, v) ==
  CASE fn.o = "always"     -> TRUE
    [] fn.o = "never"      -> FALSE
    [] fn.o = "str_even"   -> Len(v["$s"]) % 2 = 0
    [] fn.o = "str_len_le" -> Len(v["$s"]) <= fn.n
    [] fn.o = "str_has"    -> \E i \in 1..Len(v["$s"]) : v["$s"][i] = fn.c
    [] fn.o = "len_le"     -> Len(v[fn.f]) <= fn.n
    [] fn.o = "is_some"    -> v[fn.f]["$"] = "Some"
    [] fn.o = "variant_is" -> v["$"] = fn.variant
    [] fn.o = "span_le"    -> v["position"]["$r"][2] - v["position"]["$r"][1] <= fn.n

\* @check functions on @char rules see the next character
CharCheckOracle(fn, c) ==
  CASE fn.o = "always"   -> TRUE
    [] fn.o = "never"    -> FALSE
    [] fn.o = "char_in"  -> c \in fn.lo..fn.hi
    [] fn.o = "char_not" -> c # fn.c
=============================================================================
