CONSTANTS
  Shortcut = "impl"
  Format = TRUE
  Depth = 4
SPECIFICATION Spec
CHECK_DEADLOCK FALSE
INVARIANT Fresh
PROPERTY Untouched
