------------------------------- MODULE Routes -------------------------------
(***************************************************************************)
(* C16: code generation is a function of (grammar text, settings), the     *)
(* same through every integration route and in every process.              *)
(*                                                                         *)
(* Trace specification over observations recorded from the real routes     *)
(* (ndjson, TRACE): {route, g, s, proc, body} where body is the digest of  *)
(* the emitted code after the route's own framing has been removed         *)
(* (library: nothing; cli: header; build script: header and prefix) and    *)
(* framed says that the framing was exactly what the route documents.      *)
(* F is not logged: TLC infers it from the first observation of each       *)
(* (g, s); every later observation must agree with it.                     *)
(***************************************************************************)
EXTENDS TraceReader

VARIABLES l, F          \* F: function (partial) <<g, s>> -> digest
vars == <<l, F>>
Ev == Rec[l]

Init == l = 1 /\ F = <<>>

Observe ==
  /\ l <= Len(Rec) /\ Ev.ev = "emit"
  /\ Ev.framed                                        \* header / prefix exactly as composed by the route
  /\ LET k == <<Ev.g, Ev.s>> IN
     IF k \in DOMAIN F THEN F[k] = Ev.body /\ F' = F  \* same code every time, in every process, by every route
     ELSE F' = (k :> Ev.body) @@ F
  /\ l' = l + 1

Next == Observe
Spec == Init /\ [][Next]_vars
=============================================================================
