--------------------------- MODULE PackratMonitor ---------------------------
(***************************************************************************)
(* C06: within one parse the body of a @memoize rule is evaluated at most  *)
(* once per input position.  Body evaluations are observed through the     *)
(* public API: a zero-length @extern probe at the start of each memoized   *)
(* body (event `ext` of a probe listed in begin.probes), keyed by offset.  *)
(* A second evaluation of a pair already seen is not an enabled action.    *)
(***************************************************************************)
EXTENDS TraceReader, FiniteSets

VARIABLES l,
          seen,     \* <<probe, offset>> pairs evaluated in the current parse
          cur       \* the begin event of the current parse

vars == <<l, seen, cur>>
Ev == Rec[l]
Is(e) == l <= Len(Rec) /\ Ev.ev = e /\ l' = l + 1

Init == l = 1 /\ seen = {} /\ cur = [probes |-> <<>>, n |-> 0, bound |-> 0]

Begin == Is("begin") /\ seen' = {} /\ cur' = [probes |-> Ev.probes, n |-> Ev.n, bound |-> Ev.bound]

IsProbe(name) == \E i \in 1..Len(cur.probes) : cur.probes[i] = name

Probe == /\ Is("ext") /\ IsProbe(Ev.r)
         /\ <<Ev.r, Ev.p>> \notin seen          \* at most once per position
         /\ seen' = seen \cup {<<Ev.r, Ev.p>>}
         /\ UNCHANGED cur
Other == /\ l <= Len(Rec)
         /\ \/ Ev.ev \in {"enter", "exit", "info", "chk", "adv", "fail", "pos"}
            \/ Ev.ev = "ext" /\ ~IsProbe(Ev.r)
         /\ l' = l + 1 /\ UNCHANGED <<seen, cur>>
\* the packrat bound: when every rule is memoized (bound > 0) the number of body
\* evaluations is at most (number of rules) x (input length + 1)
End == /\ Is("end")
       /\ cur.bound > 0 => Cardinality(seen) <= cur.bound
       /\ UNCHANGED <<seen, cur>>

Next == Begin \/ Probe \/ Other \/ End
Spec == Init /\ [][Next]_vars
=============================================================================
