SPECIFICATION Spec
CHECK_DEADLOCK FALSE
INVARIANT Out
INVARIANT GeneratorAgrees
