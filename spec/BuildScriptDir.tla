---------------------------- MODULE BuildScriptDir ----------------------------
(***************************************************************************)
(* C18 / C15, directory mode: `Compile::directory` visits every .ebnf file *)
(* of a directory (in the order the file system lists them: any order) and *)
(* compiles each next to itself; it stops at the first failing file and    *)
(* returns its error.  Two grammar files are enough to show every          *)
(* interaction.  The per-file step is the single-file protocol of          *)
(* BuildScript (prefix fixed, no formatting).                              *)
(***************************************************************************)
EXTENDS Naturals, Sequences, TLC, Json

CONSTANTS Depth

Files == {"a", "b"}
Valid == {"g1", "g2"}
Sources == Valid \cup {"bad"}

VARIABLES src, dest, last, failed, h
vars == <<src, dest, last, failed, h>>

Absent == "absent"
Compose(g) == "C:" \o g

Init ==
  /\ src = [f \in Files |-> "g1"]
  /\ dest = [f \in Files |-> Absent]
  /\ last = "none" /\ failed = "none"
  /\ h = <<>>

Open == Len(h) < Depth

Edit(f, g) ==
  /\ Open /\ g # src[f]
  /\ src' = [src EXCEPT ![f] = g]
  /\ h' = Append(h, [a |-> "edit", f |-> f, g |-> g])
  /\ UNCHANGED <<dest, last, failed>>

Delete(f) ==
  /\ Open /\ dest[f] # Absent
  /\ dest' = [dest EXCEPT ![f] = Absent]
  /\ h' = Append(h, [a |-> "delete", f |-> f])
  /\ UNCHANGED <<src, last, failed>>

\* one file: up to date (header of the current grammar) -> nothing; invalid -> error; else write
RunOne(d, f) == IF src[f] \in Valid /\ d[f] # Compose(src[f]) THEN [d EXCEPT ![f] = Compose(src[f])] ELSE d
Fails(f) == src[f] \notin Valid

\* try_for_each over the listing: the first failing file ends the run
Run(order) ==
  /\ Open
  /\ h' = Append(h, [a |-> "run"])
  /\ LET f1 == order[1]
         f2 == order[2]
     IN IF Fails(f1) THEN dest' = dest /\ last' = "err" /\ failed' = f1
        ELSE IF Fails(f2) THEN dest' = RunOne(dest, f1) /\ last' = "err" /\ failed' = f2
        ELSE dest' = RunOne(RunOne(dest, f1), f2) /\ last' = "ok" /\ failed' = "none"
  /\ UNCHANGED src

Next ==
  \/ \E f \in Files, g \in Sources : Edit(f, g)
  \/ \E f \in Files : Delete(f)
  \/ Run(<<"a", "b">>) \/ Run(<<"b", "a">>)

Spec == Init /\ [][Next]_vars

JustRan == h # <<>> /\ h[Len(h)].a = "run"
\* the run fails iff some grammar of the directory is invalid - whatever the listing order
ErrIffInvalid == JustRan => (last = "err" <=> \E f \in Files : Fails(f))
\* after a successful run every destination is current
FreshAll == (JustRan /\ last = "ok") => \A f \in Files : dest[f] = Compose(src[f])
\* a failing run leaves the destination of the failing grammar exactly as it was
FailSafe == [][(\E o \in {<<"a", "b">>, <<"b", "a">>} : Run(o)) /\ last' = "err" => dest'[failed'] = dest[failed']]_vars

Replay == (Len(h) = Depth) => PrintT(<<"OUT", ToJson([h |-> h])>>)
=============================================================================
