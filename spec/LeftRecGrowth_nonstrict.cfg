SPECIFICATION Spec
CONSTANTS
  N = 3
  Strict = FALSE
INVARIANTS Bounded Longest
PROPERTIES Monotone
CHECK_DEADLOCK FALSE
