----------------------------- MODULE MemoTable -----------------------------
(***************************************************************************)
(* The cache protocol of generate_memoized_body (C05, C06), at the level   *)
(* of keys <<rule, offset>>, for any set of keys and histories of any      *)
(* length: a call of a memoized rule at key k is a Hit when the cache has  *)
(* an entry for k, otherwise the body is entered (Enter) and on EVERY way  *)
(* out of the body - success, failure, early exit by `?` - its result is   *)
(* stored (Exit).  F[k] is what the body computes at k (the rule is a pure *)
(* function of grammar, input and offset: C20).  Proved with TLAPS          *)
(* (proofs/MemoTableProofs.tla) and checked by TLC on 3 keys:              *)
(*   Packrat     the body runs at most once per key                        *)
(*   Transparent every value handed out by a Hit is the body's own value   *)
(* PegMachine carries the same bookkeeping per template and TLC checks it  *)
(* on bounded cases; PackratMonitor / CacheMonitor validate real traces.   *)
(* StoreOnEveryExit = FALSE is the code before the fix 79c8e9e (an early   *)
(* exit leaves the body without the insert): the proof does not go through *)
(* and TLC finds the second evaluation (negative control).                 *)
(* A key that is still open is never entered again: for rules that are not *)
(* left-recursive that would be an infinite recursion (NoReentry, checked  *)
(* on PegMachine); @leftrec seeds the cache before the body runs.          *)
(***************************************************************************)
EXTENDS Naturals

CONSTANTS Keys, Vals, F, StoreOnEveryExit
ASSUME FType == F \in [Keys -> Vals]
MCF == [k \in Keys |-> k]      \* TLC instance: Vals = Keys, every key has its own value

VARIABLES open,     \* keys whose body is running (the set behind the call stack)
          cache,    \* [stored -> Vals]
          stored,   \* DOMAIN cache, kept as a set
          runs,     \* [Keys -> Nat] number of body evaluations
          handed    \* set of <<k, v>> handed out by cache hits

vars == <<open, cache, stored, runs, handed>>

Init == /\ open = {} /\ stored = {} /\ cache = [k \in Keys |-> F[k]]
        /\ runs = [k \in Keys |-> 0] /\ handed = {}

\* cache.get(key) is None: run the body
Enter(k) == /\ k \notin stored /\ k \notin open
            /\ open' = open \cup {k}
            /\ runs' = [runs EXCEPT ![k] = @ + 1]
            /\ UNCHANGED <<cache, stored, handed>>

\* the closure returned (Ok, Err or `?`): cache.insert(key, result.clone())
Exit(k) == /\ k \in open
           /\ open' = open \ {k}
           /\ IF StoreOnEveryExit
                THEN /\ cache' = [cache EXCEPT ![k] = F[k]]
                     /\ stored' = stored \cup {k}
                ELSE \/ cache' = [cache EXCEPT ![k] = F[k]] /\ stored' = stored \cup {k}
                     \/ UNCHANGED <<cache, stored>>          \* `?` jumped over the insert
           /\ UNCHANGED <<runs, handed>>

\* cache.get(key) is Some(result): hand it out
Hit(k) == /\ k \in stored
          /\ handed' = handed \cup {<<k, cache[k]>>}
          /\ UNCHANGED <<open, cache, stored, runs>>

Next == \E k \in Keys : Enter(k) \/ Exit(k) \/ Hit(k)
Spec == Init /\ [][Next]_vars

Packrat == \A k \in Keys : runs[k] <= 1
Transparent == \A h \in handed : h[2] = F[h[1]]
=============================================================================
