INIT MCInit
NEXT Next
CHECK_DEADLOCK FALSE
INVARIANT TypeOK
INVARIANT StaticOK
INVARIANT Conforms
INVARIANT TreeExact
INVARIANT NoReentry
INVARIANT OnBoundary
INVARIANT Packrat
INVARIANT PackratBound
INVARIANT CountSound
INVARIANT RealFailure
INVARIANT NoSentinel
INVARIANT FurthestFail
INVARIANT Balanced
INVARIANT Replay
PROPERTY CloProgress
PROPERTY LrProgress
PROPERTY FreshCache
