--------------------------- MODULE BoundaryMonitor ---------------------------
(***************************************************************************)
(* C04: every offset a generated parser uses or exposes - each cursor      *)
(* advance, rule entry and exit positions, failure positions, @position    *)
(* ranges - lies on a UTF-8 character boundary inside the input; the parse *)
(* does not panic.                                                         *)
(***************************************************************************)
EXTENDS TraceReader

VARIABLES l, bounds, n
vars == <<l, bounds, n>>
Ev == Rec[l]
Is(e) == l <= Len(Rec) /\ Ev.ev = e /\ l' = l + 1

OnB(p) == \E i \in 1..Len(bounds) : bounds[i] = p

Init == l = 1 /\ bounds = <<0>> /\ n = 0
Begin == Is("begin") /\ bounds' = Ev.bounds /\ n' = Ev.n
Adv   == Is("adv")  /\ OnB(Ev.from) /\ OnB(Ev.from + Ev.len) /\ UNCHANGED <<bounds, n>>
Fail  == Is("fail") /\ OnB(Ev.p) /\ UNCHANGED <<bounds, n>>
Enter == Is("enter") /\ OnB(Ev.p) /\ UNCHANGED <<bounds, n>>
Exit  == Is("exit") /\ OnB(Ev.p) /\ UNCHANGED <<bounds, n>>
Pos   == Is("pos")  /\ OnB(Ev.from) /\ OnB(Ev.to) /\ Ev.from <= Ev.to /\ UNCHANGED <<bounds, n>>
Ext   == Is("ext")  /\ OnB(Ev.p) /\ UNCHANGED <<bounds, n>>
Other == l <= Len(Rec) /\ Ev.ev \in {"info", "chk"} /\ l' = l + 1 /\ UNCHANGED <<bounds, n>>
End   == Is("end") /\ ~Ev.panic /\ (~Ev.ok => OnB(Ev.errp)) /\ Ev.substr /\ UNCHANGED <<bounds, n>>

Next == Begin \/ Adv \/ Fail \/ Enter \/ Exit \/ Pos \/ Ext \/ Other \/ End
Spec == Init /\ [][Next]_vars
=============================================================================
