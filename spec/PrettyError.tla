---------------------------- MODULE PrettyError ----------------------------
(***************************************************************************)
(* C11: the location a pretty error reports for a byte position in a text. *)
(*                                                                         *)
(* A scanner machine walks the text one character per step up to the       *)
(* target position, maintaining (offset, line, column, start of line) -    *)
(* the way an editor would.  TLC checks in every final state that this     *)
(* agrees with the property's own definition (newlines before the position *)
(* plus one; characters since the start of that line plus one) and prints  *)
(* the expected (line, column, line text, caret column) for every text and *)
(* every boundary position, to be compared with the real Display output.   *)
(***************************************************************************)
EXTENDS PegChars, TLC, Json

CONSTANTS Alpha,     \* code points of the alphabet
          MaxLen

VARIABLES cps,       \* the text (code points)
          target,    \* the error position (a byte offset on a character boundary)
          off,       \* scanner: byte offset reached
          ci,        \* scanner: characters consumed
          line, col, \* scanner: 1-based line and column of `off`
          ls         \* scanner: index (in characters) where the current line starts

vars == <<cps, target, off, ci, line, col, ls>>

Texts == UNION {[1..n -> Alpha] : n \in 0..MaxLen}

Init ==
  /\ cps \in Texts
  /\ target \in {StartOf(cps, i) : i \in 1..(Len(cps) + 1)}
  /\ off = 0 /\ ci = 0 /\ line = 1 /\ col = 1 /\ ls = 0

Scan ==
  /\ off < target
  /\ LET c == cps[ci + 1] IN
     /\ off' = off + W(c)
     /\ ci' = ci + 1
     /\ IF c = 10 THEN line' = line + 1 /\ col' = 1 /\ ls' = ci + 1
                  ELSE line' = line /\ col' = col + 1 /\ ls' = ls
  /\ UNCHANGED <<cps, target>>

Done == off = target

Next == Scan
Spec == Init /\ [][Next]_vars

\* the line that contains the position: from ls to the next newline (exclusive)
RECURSIVE LineEnd(_, _)
LineEnd(s, i) == IF i > Len(s) \/ s[i] = 10 THEN i - 1 ELSE LineEnd(s, i + 1)
LineText == SubSeq(cps, ls + 1, LineEnd(cps, ls + 1))

\* the property's own definition
NewlinesBefore == Cardinality({i \in 1..ci : cps[i] = 10})
LastNewline == IF \E i \in 1..ci : cps[i] = 10
               THEN CHOOSE i \in 1..ci : cps[i] = 10 /\ \A j \in (i + 1)..ci : cps[j] # 10 ELSE 0

Definition == Done => /\ line = NewlinesBefore + 1
                      /\ col = ci - LastNewline + 1
                      /\ ls = LastNewline

Replay == Done => PrintT(<<"OUT", ToJson([text |-> cps, pos |-> target, line |-> line, col |-> col,
                                           linetext |-> LineText])>>)
=============================================================================
