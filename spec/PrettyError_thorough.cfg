CONSTANTS
  Alpha = {97, 32, 10, 13, 233, 36947}
  MaxLen = 5
INIT Init
NEXT Next
CHECK_DEADLOCK FALSE
INVARIANT Definition
INVARIANT Replay
