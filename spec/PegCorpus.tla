----------------------------- MODULE PegCorpus -----------------------------
(***************************************************************************)
(* The corpus of grammars the machine is instantiated with: a JSON file    *)
(* (format: PegGrammar) named by the environment variable CORPUS.          *)
(* It is a plain definition on purpose: TLC evaluates a constant-level     *)
(* definition once, whereas a CONSTANT substituted in the .cfg file is     *)
(* re-evaluated (the file re-read) on every use.                           *)
(***************************************************************************)
EXTENDS Json, IOUtils
Grammars == JsonDeserialize(IOEnv.CORPUS)
=============================================================================
