---------------------------- MODULE CacheMonitor ----------------------------
(***************************************************************************)
(* C05 / C20: every parse call starts from an empty cache.  A cache hit    *)
(* (tracer message "Cache hit", also the left-recursive one) reported for  *)
(* a rule at an offset is explainable only by an entry of the same rule at *)
(* the same offset earlier in the *same* parse call: a hit that no entry   *)
(* of the current call precedes is not an enabled action.                  *)
(***************************************************************************)
EXTENDS TraceReader

VARIABLES l,
          entered,  \* <<rule, offset>> entered before in the current call
          top       \* the innermost open rule entry <<rule, offset>> (a stack)
vars == <<l, entered, top>>
Ev == Rec[l]
Is(e) == l <= Len(Rec) /\ Ev.ev = e /\ l' = l + 1

Init == l = 1 /\ entered = {} /\ top = <<>>
Begin == Is("begin") /\ entered' = {} /\ top' = <<>>
Enter == Is("enter") /\ top' = Append(top, <<Ev.r, Ev.p>>) /\ UNCHANGED entered
\* the entry becomes "earlier" once something else happens inside or after it
Exit  == Is("exit") /\ top # <<>> /\ entered' = entered \cup {top[Len(top)]}
         /\ top' = SubSeq(top, 1, Len(top) - 1)
IsHit(t) == t \in {"Cache hit", "Cache hit (left recursive)"}
Hit   == /\ Is("info") /\ IsHit(Ev.t) /\ top # <<>>
         /\ \/ top[Len(top)] \in entered                                  \* completed earlier in this call
            \/ \E i \in 1..(Len(top) - 1) : top[i] = top[Len(top)]         \* or still growing (left recursion)
         /\ UNCHANGED <<entered, top>>
Other == /\ l <= Len(Rec)
         /\ \/ Ev.ev \in {"ext", "chk", "adv", "fail", "pos", "end"}
            \/ Ev.ev = "info" /\ ~IsHit(Ev.t)
         /\ l' = l + 1 /\ UNCHANGED <<entered, top>>

Next == Begin \/ Enter \/ Exit \/ Hit \/ Other
Spec == Init /\ [][Next]_vars
=============================================================================
