SPECIFICATION Spec
CONSTANTS
  N = 4
  Strict = TRUE
INVARIANTS Bounded Longest
PROPERTIES Monotone
CHECK_DEADLOCK FALSE
