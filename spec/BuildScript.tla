----------------------------- MODULE BuildScript -----------------------------
(***************************************************************************)
(* C18: the build protocol (module BuildProtocol) instantiated for TLC:    *)
(* every maximal history is printed for replay against the real Compile.   *)
(***************************************************************************)
EXTENDS BuildProtocol, TLC, Json

\* the history of every maximal behaviour, for replay against the real Compile
Replay == (Len(h) = Depth + 1) => PrintT(<<"OUT", ToJson([h |-> h, format |-> Format])>>)
=============================================================================
