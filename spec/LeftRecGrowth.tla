--------------------------- MODULE LeftRecGrowth ---------------------------
(***************************************************************************)
(* The growth loop of generate_leftrec_body (C07), at the level of end     *)
(* positions, for inputs of any length N and ANY behaviour of the body:    *)
(* the sentinel failure is planted (Seed), the body is evaluated again and *)
(* again; an evaluation that succeeds and ends strictly further than the   *)
(* best result so far replaces it (Grow), anything else ends the loop with *)
(* the best result (Stop).  -1 stands for "failed".  What the body answers *)
(* is unconstrained here (any of -1 .. N in every round): PegMachine has   *)
(* the real bodies and TLC checks LrProgress on bounded cases; this module *)
(* is the arithmetic of the loop, proved with TLAPS                        *)
(* (proofs/LeftRecGrowthProofs.tla):                                       *)
(*   Bounded   the body is evaluated at most N + 2 times                   *)
(*   Longest   the result is the maximum of everything the body answered   *)
(*             before the stopping evaluation, and was answered by it      *)
(*   Monotone  the cached best result never moves backwards                *)
(* Strict = FALSE is the loop with `>=` for `>` (a slip a refactoring can  *)
(* make): TLC must find the run that exceeds the bound.                    *)
(***************************************************************************)
EXTENDS Integers

CONSTANTS N, Strict
ASSUME NNat == N \in Nat

VARIABLES pc,      \* "seed" | "loop" | "done"
          best,    \* end position of the best result so far, -1 = the planted failure
          evals,   \* number of body evaluations
          seen,    \* what the body answered in the rounds that were accepted
          result   \* what the rule returns

vars == <<pc, best, evals, seen, result>>

Init == pc = "seed" /\ best = -1 /\ evals = 0 /\ seen = {} /\ result = -1

\* cache.insert(key, Err(sentinel))
Seed == /\ pc = "seed" /\ pc' = "loop"
        /\ UNCHANGED <<best, evals, seen, result>>

Better(r) == IF Strict THEN r > best ELSE r >= best

\* the body answered r, further than the best so far: cache it and go round again
Grow(r) == /\ pc = "loop" /\ r >= 0 /\ Better(r)
           /\ best' = r /\ evals' = evals + 1 /\ seen' = seen \cup {r}
           /\ UNCHANGED <<pc, result>>

\* the body failed or made no progress: the best so far is the answer
Stop(r) == /\ pc = "loop" /\ ~(r >= 0 /\ Better(r))
           /\ evals' = evals + 1 /\ result' = best /\ pc' = "done"
           /\ UNCHANGED <<best, seen>>

Next == Seed \/ \E r \in -1..N : Grow(r) \/ Stop(r)
Spec == Init /\ [][Next]_vars

Bounded == evals <= N + 2
Longest == pc = "done" => /\ \A x \in seen : x <= result
                          /\ result = -1 \/ result \in seen
Monotone == [][best' >= best]_vars
=============================================================================
