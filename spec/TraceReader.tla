---------------------------- MODULE TraceReader ----------------------------
(***************************************************************************)
(* Traces recorded from the real generated parsers (ndjson, one event per  *)
(* line, file named by the environment variable TRACE).  Several parses    *)
(* are concatenated; each starts with a `begin` and finishes with an `end` *)
(* event.  Events (see harness/common, bin/lib/traces.py):                 *)
(*   begin {case, n, bounds, memo, probes}   enter {r, p}   exit {ok, p}   *)
(*   info {t}   ext {r, p, ok, len}   chk {r, ok}   adv {from, len}        *)
(*   fail {p}   pos {from, to}   end {ok, same, panic}                     *)
(* A monitor specification consumes one line per step; the trace is        *)
(* accepted iff every line is an enabled action (see Accepted).            *)
(***************************************************************************)
EXTENDS Json, IOUtils, Sequences, Naturals, TLC

Rec == ndJsonDeserialize(IOEnv.TRACE)

\* POSTCONDITION: the search consumed every line.  The monitors are deterministic, so the
\* behaviour is one chain whose length is the diameter; the first unmatched line is printed.
Accepted ==
  LET d == TLCGet("stats").diameter IN
  IF d - 1 = Len(Rec) THEN TRUE
  ELSE /\ PrintT(<<"REJECTED", d, ToJson(Rec[d])>>)
       /\ FALSE
=============================================================================
