--------------------------- MODULE NestingMonitor ---------------------------
(***************************************************************************)
(* C19: rule entries and exits reported to a ParseTracer are properly      *)
(* nested - each entry is followed by exactly one matching exit, also when *)
(* the rule fails, is answered from the cache or is re-evaluated by left   *)
(* recursion - and tracing changes nothing but the log.                    *)
(***************************************************************************)
EXTENDS TraceReader

VARIABLES l,      \* next line
          open    \* rules entered and not yet exited (a stack)

vars == <<l, open>>
Ev == Rec[l]
Is(e) == l <= Len(Rec) /\ Ev.ev = e /\ l' = l + 1

Init == l = 1 /\ open = <<>>

Begin == Is("begin") /\ open = <<>> /\ open' = <<>>
Enter == Is("enter") /\ open' = Append(open, Ev.r)
\* an exit without an open entry is the counter underflow of IndentedTracer
Exit  == Is("exit") /\ open # <<>> /\ open' = SubSeq(open, 1, Len(open) - 1)
Other == l <= Len(Rec) /\ Ev.ev \in {"info", "ext", "chk", "adv", "fail", "pos"} /\ l' = l + 1 /\ UNCHANGED open
\* the parse is over: nothing is left open, the traced results (recording tracer and the
\* library's IndentedTracer) equal the untraced one, nothing panicked
End   == Is("end") /\ open = <<>> /\ Ev.same /\ ~Ev.panic /\ open' = <<>>

Next == Begin \/ Enter \/ Exit \/ Other \/ End
Spec == Init /\ [][Next]_vars

DepthNat == Len(open) >= 0
=============================================================================
