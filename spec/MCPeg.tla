------------------------------- MODULE MCPeg -------------------------------
(***************************************************************************)
(* Exhaustive instance of PegMachine over a corpus of grammars.            *)
(* The corpus file is named by the environment variable CORPUS; every      *)
(* grammar is run on every input over its alphabet up to its length bound  *)
(* and on its explicit extra inputs.  For every finished behaviour one     *)
(* REPLAY line (JSON) is printed: the expected observable outcome that the *)
(* harness compares with the real generated parser.                        *)
(***************************************************************************)
EXTENDS PegMachine

MCInit ==
  /\ gi \in 1..Len(Grammars)
  /\ \/ \E cps \in UNION {[1..n -> {Grammars[gi].alpha[i] : i \in 1..Len(Grammars[gi].alpha)}]
                            : n \in 0..Grammars[gi].maxlen} : txt = MkText(cps)
     \/ \E i \in 1..Len(Grammars[gi].extra) : txt = MkText(Grammars[gi].extra[i])
  /\ ctl = [m |-> "start"] /\ stack = <<>> /\ cache = <<>> /\ depth = 0
  /\ evals = <<>> /\ att = {} /\ hist = <<>>

MCSpec == MCInit /\ [][Next]_vars

Outcome ==
  [ g     |-> G.id,
    inp   |-> txt.cps,
    ok    |-> ctl.ok,
    end   |-> IF ctl.ok THEN ctl.st.p ELSE -1,
    tree  |-> IF ctl.ok THEN ctl.v ELSE <<>>,
    errp  |-> IF ctl.ok THEN -1 ELSE ctl.err.p,
    errk  |-> IF ctl.ok THEN KOther ELSE ctl.err.k,
    att   |-> att,
    evals |-> {<<k[1], k[2], evals[k]>> : k \in DOMAIN evals},
    upanic |-> UPanic,
    hist  |-> hist ]

Replay == Done => PrintT(<<"REPLAY", ToJson(Outcome)>>)

\* the static part of C01's quantifier and of C03, once per grammar
StaticOK ==
  (ctl.m = "start" /\ txt.cps = <<>>) =>
     /\ WellFormed(G)
     /\ \A ri \in 1..NumRules(G) : G.rules[ri].kind = "rule" => ArityMappingHolds(G, ri)
=============================================================================
