SPECIFICATION Spec
CHECK_DEADLOCK FALSE
INVARIANT ArityMapping
INVARIANT Out
