------------------------------- MODULE Session -------------------------------
(***************************************************************************)
(* C20 / C05: a generated parser has no hidden state.                      *)
(*                                                                         *)
(* Threads issue parse calls; a call is Begin (allocate the per-call       *)
(* state: cache, tracer), a number of cache operations (Store, Lookup) at  *)
(* keys <<rule, offset>>, and End (return the result).  A cache entry is   *)
(* only valid for the input it was computed from: answering a Lookup with  *)
(* an entry computed from another input yields a wrong result.  The        *)
(* architectural claim of the implementation is that the cache lives in    *)
(* the call (ParseGlobal is built inside parse_advanced): Design =         *)
(* "per_call".  The alternatives a refactoring could slip into are         *)
(* modelled too, to show what the invariant excludes: "per_thread" (a      *)
(* cache kept across the calls of one thread) and "shared" (one cache for  *)
(* all threads).  TLC explores every interleaving of 2-3 threads x 2 calls.*)
(***************************************************************************)
EXTENDS Naturals, FiniteSets, TLC

CONSTANTS Threads, Inputs, Keys, MaxCalls, Design

VARIABLES pc,        \* [thread -> "idle" | "parsing"]
          inp,       \* [thread -> input of the current call]
          calls,     \* [thread -> number of calls finished]
          cache,     \* [owner -> set of [k, i]] entries: key, input it was computed from
          wrong,     \* [thread -> the current call consumed an entry of another input]
          results    \* set of [t, i, ok]: finished calls and whether their result is D(i)

vars == <<pc, inp, calls, cache, wrong, results>>

Owner(t) == IF Design = "shared" THEN "all" ELSE t
Owners == IF Design = "shared" THEN {"all"} ELSE Threads

Init ==
  /\ pc = [t \in Threads |-> "idle"]
  /\ inp = [t \in Threads |-> CHOOSE i \in Inputs : TRUE]
  /\ calls = [t \in Threads |-> 0]
  /\ cache = [o \in Owners |-> {}]
  /\ wrong = [t \in Threads |-> FALSE]
  /\ results = {}

\* parse_advanced: a fresh ParseGlobal (cache, tracer) for this call
Begin(t, i) ==
  /\ pc[t] = "idle" /\ calls[t] < MaxCalls
  /\ pc' = [pc EXCEPT ![t] = "parsing"]
  /\ inp' = [inp EXCEPT ![t] = i]
  /\ wrong' = [wrong EXCEPT ![t] = FALSE]
  /\ cache' = IF Design = "per_call" THEN [cache EXCEPT ![Owner(t)] = {}] ELSE cache
  /\ UNCHANGED <<calls, results>>

\* cache.insert(key, result)
Store(t, k) ==
  /\ pc[t] = "parsing"
  /\ cache' = [cache EXCEPT ![Owner(t)] = {e \in @ : e.k # k} \cup {[k |-> k, i |-> inp[t]]}]
  /\ UNCHANGED <<pc, inp, calls, wrong, results>>

\* cache.get(key): a hit is used as the rule's result
Lookup(t, k) ==
  /\ pc[t] = "parsing"
  /\ \E e \in cache[Owner(t)] : e.k = k /\ wrong' = [wrong EXCEPT ![t] = @ \/ e.i # inp[t]]
  /\ UNCHANGED <<pc, inp, calls, cache, results>>

End(t) ==
  /\ pc[t] = "parsing"
  /\ pc' = [pc EXCEPT ![t] = "idle"]
  /\ calls' = [calls EXCEPT ![t] = @ + 1]
  /\ results' = results \cup {[t |-> t, i |-> inp[t], ok |-> ~wrong[t]]}
  /\ UNCHANGED <<inp, cache, wrong>>

Next == \E t \in Threads :
          \/ \E i \in Inputs : Begin(t, i)
          \/ \E k \in Keys : Store(t, k) \/ Lookup(t, k)
          \/ End(t)

Spec == Init /\ [][Next]_vars

\* every finished call returned the meaning of its own input, whatever the interleaving
SessionPure == \A r \in results : r.ok
\* every call starts from an empty cache
FreshCache == [][\A t \in Threads : (pc[t] = "idle" /\ pc'[t] = "parsing") => cache'[Owner(t)] = {}]_vars
=============================================================================
