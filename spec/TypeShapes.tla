----------------------------- MODULE TypeShapes -----------------------------
(***************************************************************************)
(* C03: the public Rust types a grammar must generate, by the documented   *)
(* mapping (doc/syntax.md, "Fields"): a field matched exactly once on      *)
(* every path is stored plainly, one that may be absent as Option, one     *)
(* that may repeat as Vec; several rule types under one name become a      *)
(* generated enum; `*` puts Box around exactly the marked types; override  *)
(* rules become aliases or enums, @string rules String, @char rules char,  *)
(* field-less rules unit structs, @position adds `position`.               *)
(*                                                                         *)
(* TLC evaluates the table for every corpus grammar - arities from the     *)
(* *documented* meaning (PathCounts), not from the implemented lattice -   *)
(* and checks ArityMapping (implemented = documented) on the way.  The     *)
(* generator turns each table into exact-type assertions that rustc        *)
(* checks against the real generated code.                                 *)
(***************************************************************************)
EXTENDS PegGrammar, PegCorpus

VARIABLE gi
Init == gi \in 1..Len(Grammars)
Next == UNCHANGED gi
Spec == Init /\ [][Next]_gi
G == Grammars[gi]

\* fields in order of first appearance (names only), documented arity per field
DocFields(g, ri) ==
  LET fs == RuleFields(g, ri) IN
  [i \in 1..Len(fs) |-> [name |-> fs[i].name, tys |-> fs[i].tys, ar |-> DocArity(g, g.rules[ri].body, fs[i].name)]]

\* some enumeration of a finite set (a CHOOSE over all functions 1..n -> S has n^n candidates)
RECURSIVE SetToSeq(_)
SetToSeq(S) == IF S = {} THEN <<>> ELSE LET x == CHOOSE x \in S : TRUE IN <<x>> \o SetToSeq(S \ {x})

Variants(fd) == LET ts == SetToSeq(DOMAIN fd.tys) IN [i \in 1..Len(ts) |-> [t |-> ts[i], boxed |-> fd.tys[ts[i]]]]

Inner(owner, fd) ==
  IF Cardinality(DOMAIN fd.tys) > 1 THEN owner
  ELSE LET t == CHOOSE t \in DOMAIN fd.tys : TRUE IN IF fd.tys[t] THEN "Box<" \o t \o ">" ELSE t

Wrap(ar, inner) == CASE ar = "One" -> inner [] ar = "Opt" -> "Option<" \o inner \o ">" [] ar = "Mul" -> "Vec<" \o inner \o ">"

RuleType(g, ri) ==
  LET r == g.rules[ri] IN
  CASE r.kind = "char"   -> [rule |-> r.name, kind |-> "alias", ty |-> "char"]
    [] r.kind = "extern" -> [rule |-> r.name, kind |-> "alias", ty |-> r.fn.ret]
    [] r.kind = "rule" ->
       IF r.string
       THEN IF r.position THEN [rule |-> r.name, kind |-> "struct", position |-> TRUE,
                                fields |-> <<[name |-> "string", ty |-> "String"]>>, enums |-> <<>>]
            ELSE [rule |-> r.name, kind |-> "alias", ty |-> "String"]
       ELSE LET fs == DocFields(g, ri) IN
            IF Len(fs) = 1 /\ fs[1].name = "_override"
            THEN IF Cardinality(DOMAIN fs[1].tys) > 1
                 THEN [rule |-> r.name, kind |-> "enum", variants |-> Variants(fs[1])]
                 ELSE [rule |-> r.name, kind |-> "alias", ty |-> Wrap(fs[1].ar, Inner(r.name, fs[1]))]
            ELSE [rule |-> r.name, kind |-> "struct", position |-> r.position,
                  fields |-> [i \in 1..Len(fs) |-> [name |-> fs[i].name,
                                                    ty |-> Wrap(fs[i].ar, Inner(r.name \o "_" \o fs[i].name, fs[i]))]],
                  enums |-> LET multi == SelectSeq(fs, LAMBDA f : Cardinality(DOMAIN f.tys) > 1) IN
                            [i \in 1..Len(multi) |-> [name |-> r.name \o "_" \o multi[i].name, variants |-> Variants(multi[i])]]]

Table == [ri \in 1..NumRules(G) |-> RuleType(G, ri)]

ArityMapping == \A ri \in 1..NumRules(G) : G.rules[ri].kind = "rule" => ArityMappingHolds(G, ri)
Out == PrintT(<<"OUT", ToJson([g |-> G.id, types |-> Table])>>)
=============================================================================
