CONSTANTS
  Shortcut = "intended"
  Format = TRUE
  Depth = 5
SPECIFICATION Spec
CHECK_DEADLOCK FALSE
INVARIANT Fresh
INVARIANT Answers
PROPERTY Untouched
PROPERTY FailSafe
