CONSTANTS
  Shortcut = "impl"
  Format = FALSE
  Depth = 6
SPECIFICATION Spec
CHECK_DEADLOCK FALSE
INVARIANT FreshExceptKnown
INVARIANT Answers
INVARIANT Replay
PROPERTY UntouchedExceptKnown
PROPERTY FailSafe
