---------------------------- MODULE BuildProtocol ----------------------------
(***************************************************************************)
(* C18: the build-script helper `Compile` as a small file protocol.        *)
(* (This module holds the protocol and its properties; BuildScript adds    *)
(* what only TLC needs - the emission of histories for replay - and        *)
(* proofs/BuildProtocolProofs proves the properties of the intended        *)
(* protocol for histories of any length with TLAPS.)                       *)
(*                                                                         *)
(* State: the grammar file, the configured prefix, the destination file    *)
(* (absent, or its content as a token sequence so that "starts with" is a  *)
(* real prefix test), its modification counter, the last result.           *)
(* Actions: EditGrammar, SetPrefix, DeleteDest, Run.                       *)
(* `Run` is written from run_on_single_file line by line when              *)
(* Shortcut = "impl"; with Shortcut = "intended" the up-to-date test is    *)
(* the one the property states (destination already current).              *)
(*                                                                         *)
(* File content: <<H(g)>> \o prefix \o <<NL, C(g)>>  (header, prefix,      *)
(* code).  rustfmt keeps the header (comments), may rewrite the prefix     *)
(* (Fmt) and formats the code (CF).                                        *)
(***************************************************************************)
EXTENDS Naturals, Sequences

CONSTANTS Shortcut,     \* "impl" | "intended"
          Format,       \* BOOLEAN: .format() configured
          Depth         \* length of the histories explored

Valid   == {"g1", "g2"}
Sources == Valid \cup {"bad_syn", "bad_sem", "missing"}
\* prefixes as token sequences; "pq" has "p" as a proper prefix; "u" is not rustfmt-stable
Prefixes == {<<>>, <<"p">>, <<"p", "q">>} \cup (IF Format THEN {<<"u">>} ELSE {})

VARIABLES src, prefix, dest, mt, last, h
vars == <<src, prefix, dest, mt, last, h>>

Absent == <<"absent">>
H(g) == "H:" \o g
C(g) == "C:" \o g
FmtTok(t) == IF t = "u" THEN "U" ELSE t
FmtPrefix(p) == [i \in 1..Len(p) |-> FmtTok(p[i])]
Written(g, p)   == <<H(g)>> \o p \o <<"NL", C(g)>>
Formatted(g, p) == <<H(g)>> \o FmtPrefix(p) \o <<"NL", "F" \o C(g)>>
\* what the destination must be after a successful run
Compose(g, p) == IF Format THEN Formatted(g, p) ELSE Written(g, p)

StartsWith(s, t) == Len(t) <= Len(s) /\ SubSeq(s, 1, Len(t)) = t

\* what may lie at the destination before the first run: nothing, an empty placeholder file, or a file cut in
\* the middle of its header (an interrupted write)
InitialDest == [absent |-> Absent, empty |-> <<>>, cut |-> <<"H:cut">>]

Init ==
  /\ src \in {"g1", "missing"}
  /\ prefix = <<>>
  /\ \E d \in DOMAIN InitialDest :
        /\ (src = "missing" => d = "absent")
        /\ dest = InitialDest[d]
        /\ h = <<[a |-> "init", g |-> src, d |-> d]>>
  /\ mt = 0
  /\ last = "none"

Open == Len(h) <= Depth

EditGrammar(g) ==
  /\ Open /\ g # src
  /\ src' = g
  /\ h' = Append(h, [a |-> "edit", g |-> g])
  /\ UNCHANGED <<prefix, dest, mt, last>>

SetPrefix(p) ==
  /\ Open /\ p # prefix
  /\ prefix' = p
  /\ h' = Append(h, [a |-> "prefix", p |-> p])
  /\ UNCHANGED <<src, dest, mt, last>>

DeleteDest ==
  /\ Open /\ dest # Absent
  /\ dest' = Absent
  /\ h' = Append(h, [a |-> "delete"])
  /\ UNCHANGED <<src, prefix, mt, last>>

\* the up-to-date test
UpToDate ==
  /\ dest # Absent
  /\ IF Shortcut = "impl"
     THEN StartsWith(dest, <<H(src)>> \o prefix)    \* header + prefix read back from the file
     ELSE dest = Compose(src, prefix)               \* already produced from the same grammar, prefix, library

Run ==
  /\ Open
  /\ h' = Append(h, [a |-> "run"])
  /\ IF src = "missing"                     \* fs::read_to_string fails
     THEN last' = "err" /\ UNCHANGED <<dest, mt>>
     ELSE IF UpToDate
     THEN last' = "ok" /\ UNCHANGED <<dest, mt>>
     ELSE IF src \in {"bad_syn", "bad_sem"} \* parse error / generate_code error
     THEN last' = "err" /\ UNCHANGED <<dest, mt>>
     ELSE /\ dest' = Compose(src, prefix)   \* fs::write, then rustfmt
          /\ mt' = mt + 1
          /\ last' = "ok"
  /\ UNCHANGED <<src, prefix>>

Next ==
  \/ \E g \in Sources : EditGrammar(g)
  \/ \E p \in Prefixes : SetPrefix(p)
  \/ DeleteDest
  \/ Run

Spec == Init /\ [][Next]_vars

---------------------------------------------------------------------------
JustRan == h # <<>> /\ h[Len(h)].a = "run"

\* after a successful run the destination is the compilation of the grammar as it is now
Fresh == (JustRan /\ last = "ok") => dest = Compose(src, prefix)

\* a destination already produced from the same grammar, prefix and library is left untouched
Untouched == [][(Run /\ dest = Compose(src, prefix)) => mt' = mt]_vars

\* a failing run returns an error and leaves an existing destination exactly as it was
FailSafe == [][(Run /\ last' = "err") => dest' = dest]_vars
Answers  == JustRan => last \in {"ok", "err"}
\* the two known deviations of the implemented shortcut, stated as conditions on the state
\* before the run (for the implementation-shaped configuration)
StaleByPrefix(d, g, p) == d # Absent /\ d # Compose(g, p) /\ StartsWith(d, <<H(g)>> \o p)
FreshExceptKnown ==
  (JustRan /\ last = "ok" /\ dest # Compose(src, prefix)) => StaleByPrefix(dest, src, prefix)
\* ... and a prefix rustfmt rewrites defeats the test, so a current destination is rewritten
UntouchedExceptKnown ==
  [][(Run /\ dest = Compose(src, prefix) /\ FmtPrefix(prefix) = prefix) => mt' = mt]_vars

=============================================================================
