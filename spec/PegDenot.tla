------------------------------ MODULE PegDenot ------------------------------
(***************************************************************************)
(* Reference semantics: what doc/syntax.md says a grammar means.           *)
(*                                                                         *)
(* A big-step function.  No cache, no error register, no tracer, no        *)
(* stack: it is the oracle the small-step machine (PegMachine) and the     *)
(* generated parsers are compared with, not a second copy of them.         *)
(* Terminals are defined on *characters* (code points), not bytes.         *)
(*                                                                         *)
(* A result is [ok, p, ms]: success flag, end offset (bytes), field        *)
(* matches (PegValues).  `env` binds, for @leftrec rules under growth,     *)
(* <<rule, offset>> to the previous result of the growth.                  *)
(***************************************************************************)
EXTENDS PegValues, PegCorpus

\* field tables of every rule of every corpus grammar (a constant: TLC evaluates it once)
FieldTables ==
  [i \in 1..Len(Grammars) |->
     [ri \in 1..Len(Grammars[i].rules) |->
        IF Grammars[i].rules[ri].kind = "rule" THEN RuleFields(Grammars[i], ri) ELSE <<>>]]

DFail == [ok |-> FALSE, p |-> -1, ms |-> <<>>]
DOk(p, ms) == [ok |-> TRUE, p |-> p, ms |-> ms]

\* the characters of t from byte offset p
CharsFrom(t, p) == Rest(t, p)

LowerCp(c) == IF c \in 65..90 THEN c + 32 ELSE c

\* literal: the next Len(s) characters are s (ASCII case folded when ci)
DLit(t, s, ci, p) ==
  LET r == CharsFrom(t, p) IN
  IF Len(r) >= Len(s) /\ \A i \in 1..Len(s) :
        IF ci THEN LowerCp(r[i]) = LowerCp(s[i]) ELSE r[i] = s[i]
  THEN DOk(p + ByteLen(s), <<>>) ELSE DFail
  \* (for ci literals s is ASCII, and a character matching it is ASCII: same width)

DRange(t, lo, hi, p) ==
  LET r == CharsFrom(t, p) IN
  IF r # <<>> /\ lo <= r[1] /\ r[1] <= hi THEN DOk(p + W(r[1]), <<>>) ELSE DFail

DAny(t, p) == LET r == CharsFrom(t, p) IN IF r # <<>> THEN DOk(p + W(r[1]), <<>>) ELSE DFail

DEoi(t, p) == IF p = t.n THEN DOk(p, <<>>) ELSE DFail

RECURSIVE DExpr(_, _, _, _, _, _)
RECURSIVE DSeq(_, _, _, _, _, _, _, _)
RECURSIVE DChoice(_, _, _, _, _, _, _)
RECURSIVE DClo(_, _, _, _, _, _, _, _)
RECURSIVE DRule(_, _, _, _, _)
RECURSIVE DGrow(_, _, _, _, _, _)
RECURSIVE DCharRule(_, _, _, _)
RECURSIVE DCharParts(_, _, _, _, _)
RECURSIVE DSkip(_, _, _, _, _)

\* whitespace before a token of a skipping rule: the five ASCII characters, or
\* whatever the grammar's own Whitespace rule matches.  Result: offset, or -1
\* when the grammar's Whitespace rule fails (then the token cannot match).
DSkip(g, t, p, skip, env) ==
  IF ~skip THEN p
  ELSE IF g.ws = 0 THEN WsRunEnd(t, p)
  ELSE LET r == DRule(g, t, g.ws, p, env) IN IF r.ok THEN r.p ELSE -1

\* value of a call to rule `ri` (any kind) at offset p: [ok, p, v]
DCall(g, t, ri, p, env) ==
  IF ri = 0 THEN LET r == DAny(t, p) IN
                 IF r.ok THEN [ok |-> TRUE, p |-> r.p, v |-> VChar(t.cpAt[p])] ELSE [ok |-> FALSE, p |-> -1, v |-> <<>>]
  ELSE IF ri = -1 THEN [ok |-> TRUE, p |-> WsRunEnd(t, p), v |-> <<>>]
  ELSE DRule(g, t, ri, p, env)

DExpr(g, t, e, p, skip, env) ==
  LET n == Node(g, e) IN
  CASE n.k = "seq"    -> DSeq(g, t, n.ps, 1, p, <<>>, skip, env)
    [] n.k = "choice" -> DChoice(g, t, n.as, 1, p, skip, env)
    [] n.k = "opt"    -> LET r == DExpr(g, t, n.b, p, skip, env) IN IF r.ok THEN r ELSE DOk(p, <<>>)
    [] n.k = "clo"    -> DClo(g, t, n.b, n.plus, p, <<>>, 0, <<skip, env>>)
    [] n.k = "neg"    -> IF DExpr(g, t, n.b, p, skip, env).ok THEN DFail ELSE DOk(p, <<>>)
    [] n.k = "pos"    -> IF DExpr(g, t, n.b, p, skip, env).ok THEN DOk(p, <<>>) ELSE DFail
    [] n.k = "inc"    -> DExpr(g, t, g.rules[n.ri].body, p, skip, env)   \* the includer's setting
    [] OTHER ->
       LET q == DSkip(g, t, p, skip, env) IN
       IF q = -1 THEN DFail ELSE
       CASE n.k = "lit"   -> DLit(t, n.s, n.ci, q)
         [] n.k = "range" -> DRange(t, n.lo, n.hi, q)
         [] n.k = "eoi"   -> DEoi(t, q)
         [] n.k = "call"  ->
              LET r == DCall(g, t, n.ri, q, env) IN
              IF ~r.ok THEN DFail
              ELSE DOk(r.p, IF n.f = "" THEN <<>>
                            ELSE <<Match1(FieldName(n.f), TypeName(g, n.ri), r.v)>>)

DSeq(g, t, ps, i, p, acc, skip, env) ==
  IF i > Len(ps) THEN DOk(p, acc)
  ELSE LET r == DExpr(g, t, ps[i], p, skip, env) IN
       IF r.ok THEN DSeq(g, t, ps, i + 1, r.p, acc \o r.ms, skip, env) ELSE DFail

DChoice(g, t, as, i, p, skip, env) ==
  IF i > Len(as) THEN DFail
  ELSE LET r == DExpr(g, t, as[i], p, skip, env) IN
       IF r.ok THEN r ELSE DChoice(g, t, as, i + 1, p, skip, env)

\* greedy, never gives back; se = <<skip, env>>.  An iteration that consumes
\* nothing would loop for ever; well-formed grammars have none.
DClo(g, t, b, plus, p, acc, k, se) ==
  LET r == DExpr(g, t, b, p, se[1], se[2]) IN
  IF r.ok /\ r.p > p THEN DClo(g, t, b, plus, r.p, acc \o r.ms, k + 1, se)
  ELSE IF r.ok THEN DOk(r.p, acc \o r.ms)            \* not reached for well-formed grammars
  ELSE IF plus /\ k = 0 THEN DFail ELSE DOk(p, acc)

DCharParts(g, t, parts, i, p) ==
  IF i > Len(parts) THEN -1
  ELSE LET pt == parts[i]
           c  == t.cpAt[p]
           hit == CASE pt.k = "lit"   -> c = pt.c
                    [] pt.k = "range" -> pt.lo <= c /\ c <= pt.hi
                    [] pt.k = "ref"   -> DCharRule(g, t, pt.ri, p).ok
       IN IF hit THEN c ELSE DCharParts(g, t, parts, i + 1, p)

\* a @char rule is a character class: the next character, if it is in the class
\* and every check function accepts it
DCharRule(g, t, ri, p) ==
  LET r == g.rules[ri] IN
  IF p >= t.n THEN [ok |-> FALSE, p |-> -1, v |-> <<>>]
  ELSE LET c == t.cpAt[p] IN
       IF (\A i \in 1..Len(r.checks) : CharCheckOracle(r.checks[i], c))
          /\ DCharParts(g, t, r.parts, 1, p) # -1
       THEN [ok |-> TRUE, p |-> p + W(c), v |-> VChar(c)]
       ELSE [ok |-> FALSE, p |-> -1, v |-> <<>>]

\* one evaluation of the body of a normal rule at p: [ok, p, v]
DBody(g, t, ri, p, env) ==
  LET r  == g.rules[ri]
      b  == DExpr(g, t, r.body, p, r.skip, env)
      fs == FieldTables[g.idx][ri]
  IN IF ~b.ok THEN [ok |-> FALSE, p |-> -1, v |-> <<>>]
     ELSE LET v == Build(g, t, ri, fs, b.ms, p, b.p) IN
          IF \A i \in 1..Len(r.checks) : CheckOracle(r.checks[i], v)
          THEN [ok |-> TRUE, p |-> b.p, v |-> v]
          ELSE [ok |-> FALSE, p |-> -1, v |-> <<>>]

\* growth of a @leftrec rule: prev is the previous result (a success)
DGrow(g, t, ri, p, env, prev) ==
  LET nxt == DBody(g, t, ri, p, (<<ri, p>> :> prev) @@ env) IN
  IF nxt.ok /\ nxt.p > prev.p THEN DGrow(g, t, ri, p, env, nxt) ELSE prev

DRule(g, t, ri, p, env) ==
  LET r == g.rules[ri] IN
  CASE r.kind = "char"   -> DCharRule(g, t, ri, p)
    [] r.kind = "extern" -> LET x == ExternOracle(r.fn, Rest(t, p)) IN
                            IF x.ok THEN [ok |-> TRUE, p |-> p + x.n, v |-> x.v]
                            ELSE [ok |-> FALSE, p |-> -1, v |-> <<>>]
    [] r.kind = "rule" ->
         IF ~r.leftrec THEN DBody(g, t, ri, p, env)
         ELSE IF <<ri, p>> \in DOMAIN env THEN env[<<ri, p>>]
         ELSE \* seed: the alternatives evaluated with the recursive reference failing
              LET seed == DBody(g, t, ri, p, (<<ri, p>> :> [ok |-> FALSE, p |-> -1, v |-> <<>>]) @@ env) IN
              IF ~seed.ok THEN seed ELSE DGrow(g, t, ri, p, env, seed)

\* the meaning of parsing text t with the exported rule: [ok, p, v]
Denot(g, t) == DRule(g, t, g.root, 0, <<>>)
=============================================================================
