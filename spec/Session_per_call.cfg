CONSTANTS
  Threads = {t1, t2}
  Inputs = {i1, i2}
  Keys = {k1, k2}
  MaxCalls = 2
  Design = "per_call"
SPECIFICATION Spec
CHECK_DEADLOCK FALSE
INVARIANT SessionPure
PROPERTY FreshCache
