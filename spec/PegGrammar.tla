---------------------------- MODULE PegGrammar ----------------------------
(***************************************************************************)
(* Grammars as data, and their static semantics.                           *)
(*                                                                         *)
(* A grammar g is a record (loaded from JSON, see gen/README):             *)
(*   g.rules : sequence of rules                                           *)
(*       normal rule  [kind |-> "rule", name, body (node id), skip,        *)
(*                     string, position, memoize, leftrec, export, checks] *)
(*       @char rule   [kind |-> "char", name, parts, checks]               *)
(*                     part = [k |-> "lit", c] | [k |-> "range", lo, hi]   *)
(*                          | [k |-> "ref", ri]                            *)
(*       @extern rule [kind |-> "extern", name, fn]                        *)
(*   g.nodes : sequence of expression nodes, children referred to by id    *)
(*       [k |-> "seq", ps]     [k |-> "choice", as]   [k |-> "opt", b]      *)
(*       [k |-> "clo", b, plus] [k |-> "neg", b]      [k |-> "pos", b]      *)
(*       [k |-> "lit", s, ci]  [k |-> "range", lo, hi] [k |-> "eoi"]        *)
(*       [k |-> "call", ri, f, boxed]   f = "" (no field) | name | "@"     *)
(*                ri > 0 rule index; 0 = built-in char; -1 = built-in      *)
(*                Whitespace (when the grammar does not define one)        *)
(*       [k |-> "inc", ri]                                                 *)
(*   g.root  : index of the exported rule under test                       *)
(*   g.ws    : index of the grammar's own Whitespace rule, or 0            *)
(***************************************************************************)
EXTENDS Integers, Sequences, FiniteSets, TLC

Node(g, e) == g.nodes[e]
RuleOf(g, ri) == g.rules[ri]
NumRules(g) == Len(g.rules)

\* the Rust type name a call node produces
TypeName(g, ri) == IF ri = 0 THEN "char" ELSE IF ri = -1 THEN "Whitespace" ELSE g.rules[ri].name
FieldName(f) == IF f = "@" THEN "_override" ELSE f

---------------------------------------------------------------------------
(* Field tables as implemented: transcription of the get_fields family    *)
(* (Field, Sequence, Choice, Optional, Closure, lookaheads, IncludeRule). *)
(* A descriptor is [name, tys, ar]; tys is a function type name -> boxed; *)
(* ar \in {"One","Opt","Mul"}.  The result is a sequence in order of      *)
(* first appearance, as in the code.                                      *)
---------------------------------------------------------------------------
CombineTys(l, r) ==
  [t \in (DOMAIN l) \cup (DOMAIN r) |->
      (IF t \in DOMAIN l THEN l[t] ELSE FALSE) \/ (IF t \in DOMAIN r THEN r[t] ELSE FALSE)]

HasField(fs, name) == \E i \in 1..Len(fs) : fs[i].name = name
FieldIdx(fs, name) == CHOOSE i \in 1..Len(fs) : fs[i].name = name

\* Sequence::get_fields - fold one new descriptor into the accumulated list
SeqMerge1(all, nf) ==
  IF HasField(all, nf.name)
  THEN [all EXCEPT ![FieldIdx(all, nf.name)] =
          [name |-> @.name, tys |-> CombineTys(@.tys, nf.tys), ar |-> "Mul"]]
  ELSE Append(all, nf)

RECURSIVE SeqMerge(_, _)
SeqMerge(all, new) == IF new = <<>> THEN all ELSE SeqMerge(SeqMerge1(all, Head(new)), Tail(new))

\* combine_arities_for_choice
ChoiceArity(l, r) ==
  IF l = "Mul" \/ r = "Mul" THEN "Mul" ELSE IF l = "Opt" \/ r = "Opt" THEN "Opt" ELSE "One"

ChoiceMerge1(all, nf, first) ==
  IF HasField(all, nf.name)
  THEN [all EXCEPT ![FieldIdx(all, nf.name)] =
          [name |-> @.name, tys |-> CombineTys(@.tys, nf.tys), ar |-> ChoiceArity(@.ar, nf.ar)]]
  ELSE IF first \/ nf.ar # "One" THEN Append(all, nf)
  ELSE Append(all, [nf EXCEPT !.ar = "Opt"])

RECURSIVE ChoiceMergeNew(_, _, _)
ChoiceMergeNew(all, new, first) ==
  IF new = <<>> THEN all ELSE ChoiceMergeNew(ChoiceMerge1(all, Head(new), first), Tail(new), first)

\* Choice::get_fields - one alternative
ChoiceStep(all, new, first) ==
  LET demoted == IF first THEN all
                 ELSE [i \in 1..Len(all) |->
                         IF all[i].ar = "One" /\ ~HasField(new, all[i].name)
                         THEN [all[i] EXCEPT !.ar = "Opt"] ELSE all[i]]
  IN ChoiceMergeNew(demoted, new, first)

RECURSIVE FieldsAlgo(_, _)
RECURSIVE FieldsSeq(_, _, _, _)
RECURSIVE FieldsChoice(_, _, _, _)

FieldsSeq(g, ps, i, all) ==
  IF i > Len(ps) THEN all ELSE FieldsSeq(g, ps, i + 1, SeqMerge(all, FieldsAlgo(g, ps[i])))

FieldsChoice(g, as, i, all) ==
  IF i > Len(as) THEN all ELSE FieldsChoice(g, as, i + 1, ChoiceStep(all, FieldsAlgo(g, as[i]), i = 1))

FieldsAlgo(g, e) ==
  LET n == Node(g, e) IN
  CASE n.k = "call"   -> IF n.f = "" THEN <<>>
                         ELSE << [name |-> FieldName(n.f),
                                  tys  |-> (TypeName(g, n.ri) :> n.boxed),
                                  ar   |-> "One"] >>
    [] n.k = "seq"    -> FieldsSeq(g, n.ps, 1, <<>>)
    [] n.k = "choice" -> FieldsChoice(g, n.as, 1, <<>>)
    [] n.k = "opt"    -> LET fs == FieldsAlgo(g, n.b) IN
                         [i \in 1..Len(fs) |-> IF fs[i].ar = "One" THEN [fs[i] EXCEPT !.ar = "Opt"] ELSE fs[i]]
    [] n.k = "clo"    -> LET fs == FieldsAlgo(g, n.b) IN
                         [i \in 1..Len(fs) |-> [fs[i] EXCEPT !.ar = "Mul"]]
    [] n.k = "inc"    -> FieldsAlgo(g, g.rules[n.ri].body)
    [] OTHER          -> <<>>       \* terminals; lookaheads may not contain fields

RuleFields(g, ri) == FieldsAlgo(g, g.rules[ri].body)

---------------------------------------------------------------------------
(* The documented meaning of the arity of a field: how many times can it  *)
(* be matched along one syntactic path?  0, 1, or 2 standing for "many".  *)
---------------------------------------------------------------------------
Cap(n) == IF n > 2 THEN 2 ELSE n
SumSets(S, T) == {Cap(a + b) : a \in S, b \in T}

RECURSIVE PathCounts(_, _, _)
RECURSIVE CountsSeq(_, _, _, _)
CountsSeq(g, ps, i, f) ==
  IF i > Len(ps) THEN {0} ELSE SumSets(PathCounts(g, ps[i], f), CountsSeq(g, ps, i + 1, f))

PathCounts(g, e, f) ==
  LET n == Node(g, e) IN
  CASE n.k = "call"   -> IF n.f # "" /\ FieldName(n.f) = f THEN {1} ELSE {0}
    [] n.k = "seq"    -> CountsSeq(g, n.ps, 1, f)
    [] n.k = "choice" -> UNION {PathCounts(g, n.as[i], f) : i \in 1..Len(n.as)}
    [] n.k = "opt"    -> PathCounts(g, n.b, f) \cup {0}
    [] n.k = "clo"    -> LET S == PathCounts(g, n.b, f) IN
                         IF S = {0} THEN {0} ELSE S \cup {0, 2}
    [] n.k = "inc"    -> PathCounts(g, g.rules[n.ri].body, f)
    [] OTHER          -> {0}

\* "part of a closure" is documented to give a Vec even for one iteration
RECURSIVE InClosure(_, _, _, _)
InClosure(g, e, f, inside) ==
  LET n == Node(g, e) IN
  CASE n.k = "call"   -> inside /\ n.f # "" /\ FieldName(n.f) = f
    [] n.k = "seq"    -> \E i \in 1..Len(n.ps) : InClosure(g, n.ps[i], f, inside)
    [] n.k = "choice" -> \E i \in 1..Len(n.as) : InClosure(g, n.as[i], f, inside)
    [] n.k = "opt"    -> InClosure(g, n.b, f, inside)
    [] n.k = "clo"    -> InClosure(g, n.b, f, TRUE)
    [] n.k = "inc"    -> InClosure(g, g.rules[n.ri].body, f, inside)
    [] OTHER          -> FALSE

FromCounts(S) == IF 2 \in S THEN "Mul" ELSE IF 0 \in S THEN "Opt" ELSE "One"

\* the documented mapping: plain / Option / Vec
DocArity(g, e, f) == FromCounts(PathCounts(g, e, f))

\* C03: the implemented arity lattice computes the documented mapping
ArityMappingHolds(g, ri) ==
  LET fs == RuleFields(g, ri)
      body == g.rules[ri].body
  IN /\ \A i \in 1..Len(fs) : fs[i].ar = DocArity(g, body, fs[i].name)
     /\ \A i, j \in 1..Len(fs) : i # j => fs[i].name # fs[j].name

---------------------------------------------------------------------------
(* Nullability and left calls (well-formedness, the quantifier of C01)    *)
---------------------------------------------------------------------------
\* can e succeed without consuming?  `nul` is the current guess for rules
RECURSIVE NullE(_, _, _)
NullE(g, e, nul) ==
  LET n == Node(g, e) IN
  CASE n.k = "call"   -> IF n.ri > 0 THEN nul[n.ri] ELSE n.ri = -1
    [] n.k = "seq"    -> \A i \in 1..Len(n.ps) : NullE(g, n.ps[i], nul)
    [] n.k = "choice" -> \E i \in 1..Len(n.as) : NullE(g, n.as[i], nul)
    [] n.k \in {"opt", "neg", "pos", "eoi"} -> TRUE
    [] n.k = "clo"    -> ~n.plus \/ NullE(g, n.b, nul)
    [] n.k = "inc"    -> NullE(g, g.rules[n.ri].body, nul)
    [] n.k = "lit"    -> n.s = <<>>
    [] OTHER          -> FALSE

NullRule(g, ri, nul) ==
  LET r == g.rules[ri] IN
  CASE r.kind = "rule"   -> NullE(g, r.body, nul)
    [] r.kind = "extern" -> r.fn.nullable
    [] OTHER             -> FALSE

RECURSIVE NullFix(_, _)
NullFix(g, nul) ==
  LET nxt == [ri \in 1..NumRules(g) |-> nul[ri] \/ NullRule(g, ri, nul)] IN
  IF nxt = nul THEN nul ELSE NullFix(g, nxt)

Nullable(g) == NullFix(g, [ri \in 1..NumRules(g) |-> FALSE])

\* rules that e can call before having consumed anything
RECURSIVE LeftCallsE(_, _, _)
RECURSIVE LeftCallsSeq(_, _, _, _)
LeftCallsSeq(g, ps, i, nul) ==
  IF i > Len(ps) THEN {}
  ELSE LeftCallsE(g, ps[i], nul) \cup
       (IF NullE(g, ps[i], nul) THEN LeftCallsSeq(g, ps, i + 1, nul) ELSE {})

LeftCallsE(g, e, nul) ==
  LET n == Node(g, e) IN
  CASE n.k = "call"   -> IF n.ri > 0 THEN {n.ri} ELSE {}
    [] n.k = "seq"    -> LeftCallsSeq(g, n.ps, 1, nul)
    [] n.k = "choice" -> UNION {LeftCallsE(g, n.as[i], nul) : i \in 1..Len(n.as)}
    [] n.k \in {"opt", "clo", "neg", "pos"} -> LeftCallsE(g, n.b, nul)
    [] n.k = "inc"    -> LeftCallsE(g, g.rules[n.ri].body, nul)
    [] OTHER          -> {}

\* with whitespace skipping every atom of a skipping rule first calls Whitespace
LeftCallsRule(g, ri, nul) ==
  LET r == g.rules[ri] IN
  CASE r.kind = "rule" -> LeftCallsE(g, r.body, nul) \cup (IF r.skip /\ g.ws > 0 THEN {g.ws} ELSE {})
    [] r.kind = "char" -> {r.parts[i].ri : i \in {j \in 1..Len(r.parts) : r.parts[j].k = "ref"}}
    [] OTHER           -> {}

RECURSIVE ReachFix(_, _, _)
ReachFix(g, nul, R) ==
  LET nxt == R \cup UNION {LeftCallsRule(g, ri, nul) : ri \in R} IN
  IF nxt = R THEN R ELSE ReachFix(g, nul, nxt)

\* rule ri can reach itself without consuming
LeftRecursive(g, ri, nul) ==
  ri \in ReachFix(g, nul, LeftCallsRule(g, ri, nul))

\* a closure whose body can succeed without consuming never terminates
ClosuresProgress(g, nul) ==
  \A e \in 1..Len(g.nodes) : g.nodes[e].k = "clo" => ~NullE(g, g.nodes[e].b, nul)

\* left recursion has to go through a @leftrec rule: following left calls but not
\* expanding @leftrec rules, no rule reaches itself
IsLr(g, ri) == g.rules[ri].kind = "rule" /\ g.rules[ri].leftrec
RECURSIVE ReachCut(_, _, _)
ReachCut(g, nul, R) ==
  LET nxt == R \cup UNION {IF IsLr(g, ri) THEN {} ELSE LeftCallsRule(g, ri, nul) : ri \in R} IN
  IF nxt = R THEN R ELSE ReachCut(g, nul, nxt)

WellFormed(g) ==
  LET nul == Nullable(g) IN
  /\ ClosuresProgress(g, nul)
  /\ \A ri \in 1..NumRules(g) :
        IsLr(g, ri) \/ ~(ri \in ReachCut(g, nul, LeftCallsRule(g, ri, nul)))
=============================================================================
