CONSTANTS
  Depth = 5
SPECIFICATION Spec
CHECK_DEADLOCK FALSE
INVARIANT ErrIffInvalid
INVARIANT FreshAll
INVARIANT Replay
PROPERTY FailSafe
