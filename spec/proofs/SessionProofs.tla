--------------------------- MODULE SessionProofs ---------------------------
(***************************************************************************)
(* C20 / C05 for any number of threads, inputs, keys and calls: under the  *)
(* design the code has (Design = "per_call": the cache is allocated inside *)
(* parse_advanced) every finished call returned the meaning of its own     *)
(* input (SessionPure) and every call starts from an empty cache           *)
(* (FreshCache), whatever the interleaving.  TLC checks the same module on *)
(* 2-3 threads x 2 calls and refutes the two other designs; here the       *)
(* constants are arbitrary (MaxCalls is just a guard).                     *)
(***************************************************************************)
EXTENDS Session, TLAPS

ASSUME PerCall == Design = "per_call"
ASSUME SomeInput == Inputs # {}

\* the inductive invariant: whatever a thread's cache holds was computed from the thread's current
\* input (Begin empties it, Store writes inp[t]); hence no Lookup ever consumes a foreign entry
Inv == /\ pc \in [Threads -> {"idle", "parsing"}]
       /\ inp \in [Threads -> Inputs]
       /\ cache \in [Threads -> SUBSET [k : Keys, i : Inputs]]
       /\ wrong \in [Threads -> BOOLEAN]
       /\ \A t \in Threads : \A e \in cache[t] : e.i = inp[t]
       /\ \A t \in Threads : wrong[t] = FALSE
       /\ \A r \in results : r.ok

LEMMA OwnerIsThread == \A t \in Threads : Owner(t) = t
  BY PerCall DEF Owner

LEMMA OwnersAreThreads == Owners = Threads
  BY PerCall DEF Owners

LEMMA InitInv == Init => Inv
  <1> SUFFICES ASSUME Init PROVE Inv
    OBVIOUS
  <1> QED
    BY OwnersAreThreads, SomeInput DEF Init, Inv

LEMMA BeginInv == ASSUME Inv, NEW t \in Threads, NEW i \in Inputs, Begin(t, i) PROVE Inv'
  <1>1. cache' = [cache EXCEPT ![t] = {}]
    BY PerCall, OwnerIsThread DEF Begin
  <1>2. inp' = [inp EXCEPT ![t] = i] /\ wrong' = [wrong EXCEPT ![t] = FALSE]
        /\ pc' = [pc EXCEPT ![t] = "parsing"] /\ results' = results
    BY DEF Begin
  <1>3. \A u \in Threads : \A e \in cache'[u] : e.i = inp'[u]
    BY <1>1, <1>2 DEF Inv
  <1> QED
    BY <1>1, <1>2, <1>3 DEF Inv

LEMMA StoreInv == ASSUME Inv, NEW t \in Threads, NEW k \in Keys, Store(t, k) PROVE Inv'
  <1>1. cache' = [cache EXCEPT ![t] = {e \in cache[t] : e.k # k} \cup {[k |-> k, i |-> inp[t]]}]
    BY OwnerIsThread DEF Store
  <1>2. UNCHANGED <<pc, inp, calls, wrong, results>>
    BY DEF Store
  <1>3. \A u \in Threads : \A e \in cache'[u] : e.i = inp'[u]
    BY <1>1, <1>2 DEF Inv
  <1>4. cache' \in [Threads -> SUBSET [k : Keys, i : Inputs]]
    BY <1>1 DEF Inv
  <1> QED
    BY <1>1, <1>2, <1>3, <1>4 DEF Inv

LEMMA LookupInv == ASSUME Inv, NEW t \in Threads, NEW k \in Keys, Lookup(t, k) PROVE Inv'
  <1>1. PICK e \in cache[t] : e.k = k /\ wrong' = [wrong EXCEPT ![t] = @ \/ e.i # inp[t]]
    BY OwnerIsThread DEF Lookup
  <1>2. e.i = inp[t]
    BY <1>1 DEF Inv
  <1>3. wrong' = [wrong EXCEPT ![t] = FALSE]
    BY <1>1, <1>2 DEF Inv
  <1>4. UNCHANGED <<pc, inp, calls, cache, results>>
    BY DEF Lookup
  <1> QED
    BY <1>3, <1>4 DEF Inv

LEMMA EndInv == ASSUME Inv, NEW t \in Threads, End(t) PROVE Inv'
  <1>1. results' = results \cup {[t |-> t, i |-> inp[t], ok |-> ~wrong[t]]}
        /\ pc' = [pc EXCEPT ![t] = "idle"] /\ UNCHANGED <<inp, cache, wrong>>
    BY DEF End
  <1>2. ~wrong[t]
    BY DEF Inv
  <1> QED
    BY <1>1, <1>2 DEF Inv

THEOREM Invariant == Spec => []Inv
<1>1. Inv /\ [Next]_vars => Inv'
  <2> SUFFICES ASSUME Inv, [Next]_vars PROVE Inv'
    OBVIOUS
  <2>1. CASE UNCHANGED vars
    BY <2>1 DEF Inv, vars
  <2>2. CASE Next
    BY <2>2, BeginInv, StoreInv, LookupInv, EndInv DEF Next
  <2> QED
    BY <2>1, <2>2
<1> QED
  BY InitInv, <1>1, PTL DEF Spec

THEOREM Pure == Spec => []SessionPure
<1>1. Inv => SessionPure
  BY DEF Inv, SessionPure
<1> QED
  BY Invariant, <1>1, PTL

\* a step that takes a thread from idle to parsing is a Begin of that thread, and Begin empties its cache
THEOREM Fresh == Spec => FreshCache
<1>1. Inv /\ [Next]_vars => ((\A t \in Threads : (pc[t] = "idle" /\ pc'[t] = "parsing") => cache'[Owner(t)] = {})
                               \/ UNCHANGED vars)
  <2> SUFFICES ASSUME Inv, Next, NEW t \in Threads, pc[t] = "idle", pc'[t] = "parsing"
               PROVE cache'[Owner(t)] = {}
    OBVIOUS
  <2>1. PICK u \in Threads : \/ \E i \in Inputs : Begin(u, i)
                             \/ \E k \in Keys : Store(u, k) \/ Lookup(u, k)
                             \/ End(u)
    BY DEF Next
  <2>2. CASE \E i \in Inputs : Begin(u, i)
    <3>1. u = t
      BY <2>2 DEF Begin, Inv
    <3> QED
      BY <2>2, <3>1, PerCall, OwnerIsThread DEF Begin, Inv
  <2>3. CASE \E k \in Keys : Store(u, k) \/ Lookup(u, k)
    BY <2>3 DEF Store, Lookup
  <2>4. CASE End(u)
    BY <2>4 DEF End, Inv
  <2> QED
    BY <2>1, <2>2, <2>3, <2>4
<1> QED
  BY <1>1, Invariant, PTL DEF Spec, FreshCache
=============================================================================
