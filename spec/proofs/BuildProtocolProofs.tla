------------------------ MODULE BuildProtocolProofs ------------------------
(***************************************************************************)
(* C18 for histories of any length: the protocol as the property states it *)
(* (Shortcut = "intended") satisfies Fresh, FailSafe and Untouched.  TLC   *)
(* checks the same definitions on all histories up to Depth and replays    *)
(* them against the real Compile; here Depth plays no role (Open is just a *)
(* guard).                                                                 *)
(***************************************************************************)
EXTENDS BuildProtocol, TLAPS

ASSUME Intended == Shortcut = "intended"

HRecs == [a : {"init"}, g : Sources, d : {"absent", "empty", "cut"}] \cup [a : {"edit"}, g : Sources]
         \cup [a : {"prefix"}, p : Prefixes] \cup [a : {"delete", "run"}]

TypeInv == h \in Seq(HRecs) /\ Len(h) >= 1 /\ src \in Sources /\ prefix \in Prefixes

ASSUME FormatBool == Format \in BOOLEAN

\* a composed destination is never mistaken for "no file"
LEMMA ComposeNotAbsent == \A g \in Sources, p \in Prefixes : Compose(g, p) # Absent
<1> SUFFICES ASSUME NEW g \in Sources, NEW p \in Prefixes PROVE Compose(g, p) # Absent
  OBVIOUS
<1>1. Len(Absent) = 1
  BY DEF Absent
<1>2. CASE p = <<>>
  <2>1. Len(Written(g, p)) = 3 /\ Len(Formatted(g, p)) = 3
    BY <1>2 DEF Written, Formatted, FmtPrefix, FmtTok
  <2> QED BY <2>1, <1>1 DEF Compose
<1>3. CASE p = <<"p">>
  <2>1. Len(Written(g, p)) = 4 /\ Len(Formatted(g, p)) = 4
    BY <1>3 DEF Written, Formatted, FmtPrefix, FmtTok
  <2> QED BY <2>1, <1>1 DEF Compose
<1>4. CASE p = <<"p", "q">>
  <2>1. Len(Written(g, p)) = 5 /\ Len(Formatted(g, p)) = 5
    BY <1>4 DEF Written, Formatted, FmtPrefix, FmtTok
  <2> QED BY <2>1, <1>1 DEF Compose
<1>5. CASE p = <<"u">>
  <2>1. Len(Written(g, p)) = 4 /\ Len(Formatted(g, p)) = 4
    BY <1>5 DEF Written, Formatted, FmtPrefix, FmtTok
  <2> QED BY <2>1, <1>1 DEF Compose
<1> QED
  BY <1>2, <1>3, <1>4, <1>5, FormatBool DEF Prefixes

LEMMA TypeOK == Spec => []TypeInv
<1>1. Init => TypeInv
  BY DEF Init, TypeInv, HRecs, Sources, Valid, Prefixes, InitialDest
<1>2. TypeInv /\ [Next]_vars => TypeInv'
  <2> SUFFICES ASSUME TypeInv, [Next]_vars PROVE TypeInv'
    OBVIOUS
  <2>1. CASE UNCHANGED vars
    BY <2>1 DEF TypeInv, vars
  <2>2. ASSUME NEW g \in Sources, EditGrammar(g) PROVE TypeInv'
    <3>1. [a |-> "edit", g |-> g] \in HRecs
      BY DEF HRecs
    <3> QED BY <2>2, <3>1 DEF EditGrammar, TypeInv
  <2>3. ASSUME NEW p \in Prefixes, SetPrefix(p) PROVE TypeInv'
    <3>1. [a |-> "prefix", p |-> p] \in HRecs
      BY DEF HRecs
    <3> QED BY <2>3, <3>1 DEF SetPrefix, TypeInv
  <2>4. CASE DeleteDest
    <3>1. [a |-> "delete"] \in HRecs
      BY DEF HRecs
    <3> QED BY <2>4, <3>1 DEF DeleteDest, TypeInv
  <2>5. CASE Run
    <3>1. [a |-> "run"] \in HRecs
      BY DEF HRecs
    <3> QED BY <2>5, <3>1 DEF Run, TypeInv
  <2> QED
    BY <2>1, <2>2, <2>3, <2>4, <2>5 DEF Next
<1> QED
  BY <1>1, <1>2, PTL DEF Spec

THEOREM FreshAlways == Spec => []Fresh
<1>1. Init => Fresh
  BY DEF Init, Fresh, JustRan
<1>2. TypeInv /\ Fresh /\ [Next]_vars => Fresh'
  <2> SUFFICES ASSUME TypeInv, Fresh, [Next]_vars PROVE Fresh'
    OBVIOUS
  <2>1. CASE UNCHANGED vars
    BY <2>1 DEF Fresh, JustRan, vars
  <2>2. ASSUME NEW g \in Sources, EditGrammar(g) PROVE Fresh'
    <3>1. h'[Len(h')].a = "edit"
      BY <2>2 DEF EditGrammar, TypeInv
    <3> QED BY <3>1 DEF Fresh, JustRan
  <2>3. ASSUME NEW p \in Prefixes, SetPrefix(p) PROVE Fresh'
    <3>1. h'[Len(h')].a = "prefix"
      BY <2>3 DEF SetPrefix, TypeInv
    <3> QED BY <3>1 DEF Fresh, JustRan
  <2>4. CASE DeleteDest
    <3>1. h'[Len(h')].a = "delete"
      BY <2>4 DEF DeleteDest, TypeInv
    <3> QED BY <3>1 DEF Fresh, JustRan
  <2>5. CASE Run
    <3>1. last' = "ok" => dest' = Compose(src', prefix')
      BY <2>5, Intended DEF Run, UpToDate
    <3> QED BY <3>1 DEF Fresh
  <2> QED
    BY <2>1, <2>2, <2>3, <2>4, <2>5 DEF Next
<1> QED
  BY <1>1, <1>2, TypeOK, PTL DEF Spec

THEOREM FailSafeAlways == Spec => FailSafe
<1>1. [Next]_vars => ((Run /\ last' = "err") => dest' = dest) \/ UNCHANGED vars
  BY DEF Run
<1> QED
  BY <1>1, PTL DEF Spec, FailSafe

THEOREM UntouchedAlways == Spec => Untouched
<1>1. TypeInv /\ [Next]_vars => ((Run /\ dest = Compose(src, prefix)) => mt' = mt) \/ UNCHANGED vars
  BY Intended, ComposeNotAbsent DEF Run, UpToDate, TypeInv
<1> QED
  BY <1>1, TypeOK, PTL DEF Spec, Untouched
=============================================================================
