------------------------- MODULE MemoTableProofs -------------------------
(***************************************************************************)
(* Packrat and Transparent of MemoTable for any set of keys and histories  *)
(* of any length, under the protocol the code has since fix 79c8e9e        *)
(* (StoreOnEveryExit): inductive invariant "a key has been evaluated once  *)
(* exactly when it is open or stored, and every stored value is F[k]".     *)
(***************************************************************************)
EXTENDS MemoTable, TLAPS

ASSUME Fixed == StoreOnEveryExit = TRUE

Inv == /\ open \subseteq Keys /\ stored \subseteq Keys
       /\ runs \in [Keys -> Nat]
       /\ cache \in [Keys -> Vals]
       /\ open \cap stored = {}
       /\ \A k \in Keys : runs[k] = IF k \in open \cup stored THEN 1 ELSE 0
       /\ \A k \in stored : cache[k] = F[k]
       /\ \A h \in handed : h[2] = F[h[1]]

LEMMA InitInv == Init => Inv
  BY FType DEF Init, Inv

LEMMA EnterInv == ASSUME Inv, NEW k \in Keys, Enter(k) PROVE Inv'
  <1>1. open' = open \cup {k} /\ runs' = [runs EXCEPT ![k] = runs[k] + 1] /\ UNCHANGED <<cache, stored, handed>>
    BY DEF Enter
  <1>2. runs[k] = 0
    BY DEF Enter, Inv
  <1>3. \A j \in Keys : runs'[j] = IF j \in open' \cup stored' THEN 1 ELSE 0
    BY <1>1, <1>2 DEF Inv
  <1>4. runs' \in [Keys -> Nat]
    BY <1>1 DEF Inv
  <1>5. open' \cap stored' = {}
    BY <1>1 DEF Enter, Inv
  <1> QED
    BY <1>1, <1>3, <1>4, <1>5 DEF Inv

LEMMA ExitInv == ASSUME Inv, NEW k \in Keys, Exit(k) PROVE Inv'
  <1>1. /\ open' = open \ {k} /\ cache' = [cache EXCEPT ![k] = F[k]] /\ stored' = stored \cup {k}
        /\ UNCHANGED <<runs, handed>> /\ k \in open
    BY Fixed DEF Exit
  <1>2. \A j \in Keys : runs'[j] = IF j \in open' \cup stored' THEN 1 ELSE 0
    BY <1>1 DEF Inv
  <1>3. \A j \in stored' : cache'[j] = F[j]
    BY <1>1, FType DEF Inv
  <1>4. cache' \in [Keys -> Vals]
    BY <1>1, FType DEF Inv
  <1>5. open' \cap stored' = {}
    BY <1>1 DEF Inv
  <1> QED
    BY <1>1, <1>2, <1>3, <1>4, <1>5 DEF Inv

LEMMA HitInv == ASSUME Inv, NEW k \in Keys, Hit(k) PROVE Inv'
  <1>1. handed' = handed \cup {<<k, cache[k]>>} /\ UNCHANGED <<open, cache, stored, runs>> /\ k \in stored
    BY DEF Hit
  <1>2. cache[k] = F[k]
    BY <1>1 DEF Inv
  <1>3. \A h \in handed' : h[2] = F[h[1]]
    BY <1>1, <1>2 DEF Inv
  <1> QED
    BY <1>1, <1>3 DEF Inv

THEOREM Invariant == Spec => []Inv
<1>1. Inv /\ [Next]_vars => Inv'
  <2> SUFFICES ASSUME Inv, [Next]_vars PROVE Inv'
    OBVIOUS
  <2>1. CASE UNCHANGED vars
    BY <2>1 DEF Inv, vars
  <2>2. CASE Next
    BY <2>2, EnterInv, ExitInv, HitInv DEF Next
  <2> QED
    BY <2>1, <2>2
<1> QED
  BY InitInv, <1>1, PTL DEF Spec

THEOREM AtMostOnce == Spec => []Packrat
<1>1. Inv => Packrat
  BY DEF Inv, Packrat
<1> QED
  BY Invariant, <1>1, PTL

THEOREM Invisible == Spec => []Transparent
<1>1. Inv => Transparent
  BY DEF Inv, Transparent
<1> QED
  BY Invariant, <1>1, PTL
=============================================================================
