--------------------------- MODULE ErrorRegister ---------------------------
(***************************************************************************)
(* The furthest-failure register of ParseState (record_error), at the      *)
(* level of positions: whatever sequence of errors is recorded, the        *)
(* register holds the maximum of the positions recorded so far, and it     *)
(* never moves backwards.  This is the lattice lemma behind FurthestFail   *)
(* (C10); it is proved here for unbounded histories with TLAPS, while TLC  *)
(* checks the full bookkeeping of every template on bounded cases.         *)
(***************************************************************************)
EXTENDS Integers, TLAPS

VARIABLES far,    \* position held by the register, -1 = None
          seen    \* positions recorded so far

vars == <<far, seen>>

Init == far = -1 /\ seen = {}

\* ParseState::record_error: replace when farthest_error.position <= error.position
Record(e) == /\ far' = IF far <= e THEN e ELSE far
             /\ seen' = seen \cup {e}

Next == \E e \in Nat : Record(e)
Spec == Init /\ [][Next]_vars

Inv == /\ far \in Int
       /\ seen \subseteq Nat
       /\ \A x \in seen : x <= far            \* nothing recorded is further than the register
       /\ far = -1 \/ far \in seen            \* and the register is one of the recorded positions

Monotone == [][far' >= far]_vars

THEOREM Furthest == Spec => []Inv
<1>1. Init => Inv
  BY DEF Init, Inv
<1>2. Inv /\ [Next]_vars => Inv'
  <2> SUFFICES ASSUME Inv, [Next]_vars PROVE Inv'
    OBVIOUS
  <2>1. CASE UNCHANGED vars
    BY <2>1 DEF Inv, vars
  <2>2. CASE Next
    <3>1. PICK e \in Nat : Record(e)
      BY <2>2 DEF Next
    <3> QED
      BY <3>1 DEF Record, Inv
  <2> QED
    BY <2>1, <2>2
<1> QED
  BY <1>1, <1>2, PTL DEF Spec

THEOREM NeverBackwards == Spec => Monotone
<1>1. Inv /\ [Next]_vars => (far' >= far \/ UNCHANGED vars)
  BY DEF Inv, Next, Record, vars
<1> QED
  BY <1>1, Furthest, PTL DEF Spec, Monotone
=============================================================================
