------------------------ MODULE LeftRecGrowthProofs ------------------------
(***************************************************************************)
(* Bounded, Longest and Monotone of LeftRecGrowth for inputs of any length *)
(* and any behaviour of the body, for the loop the code has (`>`).         *)
(***************************************************************************)
EXTENDS LeftRecGrowth, TLAPS

ASSUME IsStrict == Strict = TRUE

Inv == /\ pc \in {"seed", "loop", "done"}
       /\ best \in -1..N /\ evals \in Nat /\ result \in -1..N
       /\ seen \subseteq 0..N
       /\ \A x \in seen : x <= best
       /\ best = -1 \/ best \in seen
       /\ pc = "seed" => evals = 0 /\ best = -1
       /\ pc = "loop" => evals <= best + 1        \* every accepted round moved the end by at least one
       /\ pc = "done" => evals <= best + 2 /\ result = best

LEMMA InitInv == Init => Inv
  BY NNat DEF Init, Inv

LEMMA StepInv == Inv /\ [Next]_vars => Inv'
  <1> SUFFICES ASSUME Inv, [Next]_vars PROVE Inv'
    OBVIOUS
  <1>1. CASE UNCHANGED vars
    BY <1>1 DEF Inv, vars
  <1>2. CASE Seed
    BY <1>2, NNat DEF Seed, Inv
  <1>3. ASSUME NEW r \in -1..N, Grow(r) PROVE Inv'
    <2>1. r > best /\ r >= 0 /\ pc = "loop" /\ best' = r /\ evals' = evals + 1 /\ seen' = seen \cup {r} /\ UNCHANGED <<pc, result>>
      BY <1>3, IsStrict DEF Grow, Better
    <2>2. \A x \in seen' : x <= best'
      BY <2>1, NNat DEF Inv
    <2>3. evals' <= best' + 1
      BY <2>1, NNat DEF Inv
    <2> QED
      BY <2>1, <2>2, <2>3, NNat DEF Inv
  <1>4. ASSUME NEW r \in -1..N, Stop(r) PROVE Inv'
    <2>1. pc = "loop" /\ evals' = evals + 1 /\ result' = best /\ pc' = "done" /\ UNCHANGED <<best, seen>>
      BY <1>4 DEF Stop
    <2> QED
      BY <2>1, NNat DEF Inv
  <1> QED
    BY <1>1, <1>2, <1>3, <1>4 DEF Next

THEOREM Invariant == Spec => []Inv
  BY InitInv, StepInv, PTL DEF Spec

THEOREM AtMostNPlus2 == Spec => []Bounded
<1>1. Inv => Bounded
  BY NNat DEF Inv, Bounded
<1> QED
  BY Invariant, <1>1, PTL

THEOREM ReturnsLongest == Spec => []Longest
<1>1. Inv => Longest
  BY DEF Inv, Longest
<1> QED
  BY Invariant, <1>1, PTL

THEOREM NeverBackwards == Spec => Monotone
<1>1. Inv /\ [Next]_vars => (best' >= best \/ UNCHANGED vars)
  <2> SUFFICES ASSUME Inv, Next PROVE best' >= best
    BY DEF vars, Inv
  <2>1. CASE Seed
    BY <2>1, NNat DEF Seed, Inv
  <2>2. ASSUME NEW r \in -1..N, Grow(r) PROVE best' >= best
    BY <2>2, IsStrict, NNat DEF Grow, Better, Inv
  <2>3. ASSUME NEW r \in -1..N, Stop(r) PROVE best' >= best
    BY <2>3, NNat DEF Stop, Inv
  <2> QED
    BY <2>1, <2>2, <2>3 DEF Next
<1> QED
  BY <1>1, Invariant, PTL DEF Spec, Monotone
=============================================================================
