----------------------------- MODULE PegChars -----------------------------
(***************************************************************************)
(* Characters, UTF-8 bytes, whitespace.                                    *)
(*                                                                         *)
(* A text is given as a sequence of Unicode code points.  The generated    *)
(* parsers work on byte offsets into the UTF-8 encoding, so everything the *)
(* machine needs about a text is precomputed once into a "text record":    *)
(*   cps   the code points                                                 *)
(*   b     the UTF-8 bytes (1-based sequence)                              *)
(*   n     number of bytes                                                 *)
(*   cpAt  [0..n -> code point starting at that byte offset, or -1]        *)
(*   idx   [0..n -> number of characters that start before that offset]    *)
(* Byte offsets are 0-based like in the implementation.                    *)
(***************************************************************************)
EXTENDS Integers, Sequences, FiniteSets

W(c) == IF c < 128 THEN 1 ELSE IF c < 2048 THEN 2 ELSE IF c < 65536 THEN 3 ELSE 4

Utf8(c) ==
  IF c < 128 THEN <<c>>
  ELSE IF c < 2048 THEN <<192 + (c \div 64), 128 + (c % 64)>>
  ELSE IF c < 65536 THEN <<224 + (c \div 4096), 128 + ((c \div 64) % 64), 128 + (c % 64)>>
  ELSE <<240 + (c \div 262144), 128 + ((c \div 4096) % 64), 128 + ((c \div 64) % 64), 128 + (c % 64)>>

RECURSIVE Bytes(_)
Bytes(cps) == IF cps = <<>> THEN <<>> ELSE Utf8(Head(cps)) \o Bytes(Tail(cps))

RECURSIVE ByteLen(_)
ByteLen(cps) == IF cps = <<>> THEN 0 ELSE W(Head(cps)) + ByteLen(Tail(cps))

\* byte offset at which character number i (1-based) starts; i = Len+1 gives the length
RECURSIVE StartOf(_, _)
StartOf(cps, i) == IF i <= 1 THEN 0 ELSE StartOf(cps, i - 1) + W(cps[i - 1])

IsScalar(c) == c \in 0..1114111 /\ ~(c \in 55296..57343)

\* The text record is built by divide and conquer over the characters (TLC does not memoise LET-bound
\* functions, and a recursion as deep as the text is long overflows the stack of the thread that
\* computes initial states): b bytes, ca code point starting at each byte offset or -1 (1-based
\* sequence, offset + 1), ix number of characters starting before each offset.
RECURSIVE MkAux(_, _, _)
MkAux(cps, lo, hi) ==
  IF lo > hi THEN [b |-> <<>>, ca |-> <<>>, ix |-> <<>>]
  ELSE IF lo = hi
  THEN LET c == cps[lo]
           w == W(c)
       IN [b  |-> Utf8(c),
           ca |-> <<c>> \o [k \in 1..(w - 1) |-> -1],
           ix |-> <<lo - 1>> \o [k \in 1..(w - 1) |-> lo]]
  ELSE LET mid == (lo + hi) \div 2
           l == MkAux(cps, lo, mid)
           r == MkAux(cps, mid + 1, hi)
       IN [b |-> l.b \o r.b, ca |-> l.ca \o r.ca, ix |-> l.ix \o r.ix]

MkText(cps) ==
  LET a == MkAux(cps, 1, Len(cps))
      n == Len(a.b)
      ca == a.ca \o <<-1>>
      ix == a.ix \o <<Len(cps)>>
  IN [ cps  |-> cps,
       b    |-> a.b,
       n    |-> n,
       cpAt |-> [p \in 0..n |-> ca[p + 1]],
       idx  |-> [p \in 0..n |-> ix[p + 1]] ]

\* offsets that start a character, plus the length
Boundaries(t) == {p \in 0..t.n : p = t.n \/ t.cpAt[p] # -1}

IsAscii(c) == c < 128
IsWsByte(b) == b \in {9, 10, 12, 13, 32}          \* u8::is_ascii_whitespace
Lower(b) == IF b \in 65..90 THEN b + 32 ELSE b     \* u8::to_ascii_lowercase
LowerSeq(s) == [i \in 1..Len(s) |-> Lower(s[i])]

\* the byte at offset p (0-based), or -1 at the end
ByteAt(t, p) == IF p < t.n THEN t.b[p + 1] ELSE -1

\* do the bytes of t at offset p start with the byte sequence bs ?
StartsWithBytes(t, p, bs) ==
  /\ p + Len(bs) <= t.n
  /\ \A i \in 1..Len(bs) : t.b[p + i] = bs[i]

\* end of the maximal run of ASCII whitespace bytes starting at p
RECURSIVE WsRunEnd(_, _)
WsRunEnd(t, p) == IF p < t.n /\ IsWsByte(t.b[p + 1]) THEN WsRunEnd(t, p + 1) ELSE p

\* the code points of t between two byte offsets that are both boundaries
Slice(t, p0, p1) == SubSeq(t.cps, t.idx[p0] + 1, t.idx[p1])

\* code points from offset p to the end
Rest(t, p) == SubSeq(t.cps, t.idx[p] + 1, Len(t.cps))
=============================================================================
