----------------------------- MODULE PegMachine -----------------------------
(***************************************************************************)
(* The generated parser as an abstract backtracking machine.               *)
(*                                                                         *)
(* One action per code template / runtime function (the code map):         *)
(*                                                                         *)
(*  Begin, Finish              generated parse_advanced (fresh cache and   *)
(*                             tracer, no whitespace skip before the root) *)
(*  SkipWsBuiltin, SkipWsUser, generate_skip_ws; runtime parse_Whitespace; *)
(*  WsUserOk, WsUserFail       a grammar-defined Whitespace shadows it     *)
(*  Lit, Range, AnyChar, Eoi,  runtime/src/builtin_parsers.rs (byte-level  *)
(*  BuiltinWs                  fast paths included); fail = report_error   *)
(*  SeqEnter/SeqNext/SeqFail   Sequence::generate_parse_function           *)
(*  ChoiceEnter/AltOk/AltFail  ChoiceHelper::{new, choice, end}            *)
(*  OptEnter/OptOk/OptFail     Optional::generate_postprocess_calls        *)
(*  CloEnter/CloIter/CloStop   Closure::generate_code_spec                 *)
(*  NegEnter/NegOk/NegFail,    codegen/src/lookahead.rs                    *)
(*  PosEnter/PosOk/PosFail                                                 *)
(*  IncEnter                   IncludeRule::generate_code_spec             *)
(*  CallChar, CallExtern       CharRule::generate_code, ExternRule::…      *)
(*  RuleEnter, PlainBody,      CodegenRule::generate_code (tracer start,   *)
(*  RuleBody, RuleExit         value construction, checks, tracer result)  *)
(*  MemoHit/MemoMiss/MemoStore generate_memoized_body, memoize branch      *)
(*  LrHit/LrSeed/LrGrow/LrStop generate_memoized_body, @leftrec branch     *)
(*                                                                         *)
(* A parse state is st = [p, far]: cursor and furthest-failure register    *)
(* (runtime/src/state.rs); far.p = -1 stands for None.                     *)
(***************************************************************************)
EXTENDS PegDenot

VARIABLES
  gi,      \* index of the grammar under test            (constant after Init)
  txt,     \* text record of the input (PegChars!MkText) (constant after Init)
  ctl,     \* control: what is evaluated next / what is being returned
  stack,   \* continuation frames (the Rust call stack)
  cache,   \* packrat cache: <<rule, offset>> -> rule result
  depth,   \* tracer nesting depth (IndentedTracer.indentation_level)
  evals,   \* ghost: <<rule, offset>> -> number of body evaluations
  att,     \* ghost: failed match attempts [p, k, la] (la: inside a lookahead body)
  hist     \* ghost: tracer callbacks and user-function calls, in order

vars == <<gi, txt, ctl, stack, cache, depth, evals, att, hist>>

G == Grammars[gi]

FT(ri) == FieldTables[gi][ri]

---------------------------------------------------------------------------
\* error kinds (ParseErrorSpecifics), uniform records
K(k, a, b, s, n) == [k |-> k, a |-> a, b |-> b, s |-> s, n |-> n]
KChar(c)      == K("Char", c, 0, <<>>, "")
KStr(s)       == K("Str", 0, 0, s, "")
KRange(lo,hi) == K("Range", lo, hi, <<>>, "")
KClass(name)  == K("Class", 0, 0, <<>>, name)
KAny          == K("Any", 0, 0, <<>>, "")
KEoi          == K("Eoi", 0, 0, <<>>, "")
KNeg          == K("Neg", 0, 0, <<>>, "")
KCheck(name)  == K("Check", 0, 0, <<>>, name)
KExtern(msg)  == K("Extern", 0, 0, <<>>, msg)
KSentinel     == K("Sentinel", 0, 0, <<>>, "")
KOther        == K("Other", 0, 0, <<>>, "")

NoFar == [p |-> -1, k |-> KOther]
St(p, far) == [p |-> p, far |-> far]

\* ParseState::record_error / report_error / report_farthest_error
Rec(st, err)  == IF st.far.p <= err.p THEN [st EXCEPT !.far = err] ELSE st
Rep(st, kind) == Rec(st, [p |-> st.p, k |-> kind]).far
Fa(st)        == IF st.far.p = -1 THEN [p |-> st.p, k |-> KOther] ELSE st.far

---------------------------------------------------------------------------
\* control records
Eval(e, st, skip, wsd) == [m |-> "eval", e |-> e, st |-> st, skip |-> skip, wsd |-> wsd]
RetOk(st, ms)  == [m |-> "ret", ok |-> TRUE,  st |-> st, ms |-> ms, err |-> NoFar]
RetErr(err)    == [m |-> "ret", ok |-> FALSE, st |-> St(-1, NoFar), ms |-> <<>>, err |-> err]
\* result of a rule: value v instead of field matches
RuleOk(m, st, v) == [m |-> m, ok |-> TRUE,  st |-> st, v |-> v, err |-> NoFar]
RuleErr(m, err)  == [m |-> m, ok |-> FALSE, st |-> St(-1, NoFar), v |-> <<>>, err |-> err]

Top == stack[Len(stack)]
Pop == SubSeq(stack, 1, Len(stack) - 1)
Push(f) == Append(stack, f)
ReplTop(f) == [stack EXCEPT ![Len(stack)] = f]

\* Failed attempts are labelled with the number of lookahead bodies they are made in (0: they count).
\* When a lookahead is over its attempts are relabelled: a positive lookahead that fails hands its
\* inner failures to the enclosing level (they made the parse fail there); in every other case they
\* are dropped (Dropped), as the generated code drops the inner error.
LaDepth == Cardinality({i \in 1..Len(stack) : stack[i].k \in {"neg", "pos"}})
Dropped == 99
Attempt(p, kind) == [p |-> p, k |-> kind, la |-> LaDepth]
Relabel(S, from, to) == {IF a.la = from THEN [a EXCEPT !.la = to] ELSE a : a \in S}

EvInc(r, p) == IF <<r, p>> \in DOMAIN evals THEN [evals EXCEPT ![<<r, p>>] = @ + 1]
               ELSE (<<r, p>> :> 1) @@ evals

\* ghosts are not recorded for "lean" corpora (long inputs, e.g. the front end reading grammar files)
Log(ev)    == IF G.lean THEN hist ELSE Append(hist, ev)
LogAll(es) == IF G.lean THEN hist ELSE hist \o es
Att(S)     == IF G.lean THEN att ELSE att \cup S

---------------------------------------------------------------------------
Init ==
  /\ gi \in 1..Len(Grammars)
  /\ \E cps \in UNION {[1..n -> {Grammars[gi].alpha[i] : i \in 1..Len(Grammars[gi].alpha)}]
                         : n \in 0..Grammars[gi].maxlen} : txt = MkText(cps)
  /\ ctl = [m |-> "start"]
  /\ stack = <<>>
  /\ cache = <<>>
  /\ depth = 0
  /\ evals = <<>>
  /\ att = {}
  /\ hist = <<>>

\* the explicit extra inputs of a grammar
InitExtra ==
  /\ gi \in 1..Len(Grammars)
  /\ \E i \in 1..Len(Grammars[gi].extra) : txt = MkText(Grammars[gi].extra[i])
  /\ ctl = [m |-> "start"] /\ stack = <<>> /\ cache = <<>> /\ depth = 0
  /\ evals = <<>> /\ att = {} /\ hist = <<>>

---------------------------------------------------------------------------
\* entering a rule: tracer start, nesting + 1
EnterRule(ri, st, ce, cskip) ==
  /\ depth' = depth + 1
  /\ hist' = Log([ev |-> "enter", r |-> G.rules[ri].name, p |-> st.p])
  /\ stack' = Push([k |-> "rule", ri |-> ri, st0 |-> st, ce |-> ce, cskip |-> cskip,
                    best |-> RuleErr("best", NoFar)])
  /\ ctl' = [m |-> "rule", ri |-> ri, st |-> st]

\* parse_advanced: fresh cache, fresh tracer, the root is called without whitespace skip
Begin ==
  /\ ctl.m = "start"
  /\ cache' = <<>>
  /\ EnterRule(G.root, St(0, NoFar), 0, FALSE)
  /\ UNCHANGED <<gi, txt, evals, att>>

---------------------------------------------------------------------------
\* whitespace before an atom of a skipping rule
IsAtom(n) == n.k \in {"lit", "range", "eoi", "call"}

SkipWsBuiltin ==
  /\ ctl.m = "eval" /\ IsAtom(Node(G, ctl.e)) /\ ctl.skip /\ ~ctl.wsd /\ G.ws = 0
  /\ ctl' = Eval(ctl.e, [ctl.st EXCEPT !.p = WsRunEnd(txt, ctl.st.p)], ctl.skip, TRUE)
  /\ UNCHANGED <<gi, txt, stack, cache, depth, evals, att, hist>>

SkipWsUser ==
  /\ ctl.m = "eval" /\ IsAtom(Node(G, ctl.e)) /\ ctl.skip /\ ~ctl.wsd /\ G.ws > 0
  /\ depth' = depth + 1
  /\ hist' = Log([ev |-> "enter", r |-> G.rules[G.ws].name, p |-> ctl.st.p])
  /\ stack' = Append(Push([k |-> "ws", e |-> ctl.e, skip |-> ctl.skip]),
                     [k |-> "rule", ri |-> G.ws, st0 |-> ctl.st, ce |-> -1, cskip |-> ctl.skip,
                      best |-> RuleErr("best", NoFar)])
  /\ ctl' = [m |-> "rule", ri |-> G.ws, st |-> ctl.st]
  /\ UNCHANGED <<gi, txt, cache, evals, att>>

WsUserOk ==
  /\ ctl.m = "ret" /\ ctl.ok /\ stack # <<>> /\ Top.k = "ws"
  /\ ctl' = Eval(Top.e, ctl.st, Top.skip, TRUE)
  /\ stack' = Pop
  /\ UNCHANGED <<gi, txt, cache, depth, evals, att, hist>>

WsUserFail ==
  /\ ctl.m = "ret" /\ ~ctl.ok /\ stack # <<>> /\ Top.k = "ws"
  /\ ctl' = ctl
  /\ stack' = Pop
  /\ UNCHANGED <<gi, txt, cache, depth, evals, att, hist>>

\* an atom is ready to be matched: no skipping, or skipping done
Ready(kind) ==
  /\ ctl.m = "eval" /\ Node(G, ctl.e).k = kind /\ (ctl.wsd \/ ~ctl.skip)

---------------------------------------------------------------------------
\* terminals, as implemented (bytes)
TermOk(st, len) ==
  /\ ctl' = RetOk([st EXCEPT !.p = st.p + len], <<>>)
  /\ att' = att

TermFail(st, kind) ==
  /\ ctl' = RetErr(Rep(st, kind))
  /\ att' = Att({Attempt(st.p, kind)})

Lit ==
  /\ Ready("lit")
  /\ LET n == Node(G, ctl.e)
         st == ctl.st
         s == IF n.ci THEN LowerSeq(n.s) ELSE n.s       \* lower-cased at compile time
         b0 == ByteAt(txt, st.p)
     IN IF Len(s) = 1
        THEN \* parse_character_literal / parse_character_literal_insensitive
             LET c == s[1] IN
             IF n.ci THEN IF b0 # -1 /\ Lower(b0) = c THEN TermOk(st, 1) ELSE TermFail(st, KChar(c))
             ELSE IF IsAscii(c) THEN IF b0 = c THEN TermOk(st, 1) ELSE TermFail(st, KChar(c))
             ELSE IF StartsWithBytes(txt, st.p, Utf8(c)) THEN TermOk(st, W(c)) ELSE TermFail(st, KChar(c))
        ELSE \* parse_string_literal / parse_string_literal_insensitive
             LET bs == Bytes(s) IN
             IF n.ci
             THEN IF st.p + Len(bs) <= txt.n /\ \A i \in 1..Len(bs) : Lower(txt.b[st.p + i]) = bs[i]
                  THEN TermOk(st, Len(bs)) ELSE TermFail(st, KStr(s))
             ELSE IF StartsWithBytes(txt, st.p, bs) THEN TermOk(st, Len(bs)) ELSE TermFail(st, KStr(s))
  /\ UNCHANGED <<gi, txt, stack, cache, depth, evals, hist>>

Range ==
  /\ Ready("range")
  /\ LET n == Node(G, ctl.e)
         st == ctl.st
         b0 == ByteAt(txt, st.p)
     IN IF IsAscii(n.lo) /\ IsAscii(n.hi)
        THEN IF b0 # -1 /\ n.lo <= b0 /\ b0 <= n.hi THEN TermOk(st, 1) ELSE TermFail(st, KRange(n.lo, n.hi))
        ELSE LET c == IF st.p < txt.n THEN txt.cpAt[st.p] ELSE -1 IN
             IF c # -1 /\ n.lo <= c /\ c <= n.hi THEN TermOk(st, W(c)) ELSE TermFail(st, KRange(n.lo, n.hi))
  /\ UNCHANGED <<gi, txt, stack, cache, depth, evals, hist>>

Eoi ==
  /\ Ready("eoi")
  /\ IF ctl.st.p = txt.n THEN TermOk(ctl.st, 0) ELSE TermFail(ctl.st, KEoi)
  /\ UNCHANGED <<gi, txt, stack, cache, depth, evals, hist>>

\* what a call returns to the calling construct
CallMs(n, v) == IF n.f = "" THEN <<>> ELSE <<Match1(FieldName(n.f), TypeName(G, n.ri), v)>>

\* parse_char
AnyChar ==
  /\ Ready("call") /\ Node(G, ctl.e).ri = 0
  /\ LET st == ctl.st IN
     IF st.p < txt.n
     THEN /\ ctl' = RetOk([st EXCEPT !.p = st.p + W(txt.cpAt[st.p])], CallMs(Node(G, ctl.e), VChar(txt.cpAt[st.p])))
          /\ att' = att
     ELSE TermFail(st, KAny)
  /\ UNCHANGED <<gi, txt, stack, cache, depth, evals, hist>>

\* an explicit reference to the built-in Whitespace
BuiltinWs ==
  /\ Ready("call") /\ Node(G, ctl.e).ri = -1
  /\ ctl' = RetOk([ctl.st EXCEPT !.p = WsRunEnd(txt, ctl.st.p)], CallMs(Node(G, ctl.e), <<>>))
  /\ UNCHANGED <<gi, txt, stack, cache, depth, evals, att, hist>>

---------------------------------------------------------------------------
\* @char rules: checks on the next character first, then the parts in order,
\* each from the same state; errors of parts are dropped; not traced
RECURSIVE CharParts(_, _, _)
RECURSIVE CharRuleEval(_, _)

\* result: [ok, len, c, atts] - atts: the attempts that failed on the way
CharRuleEval(ri, st) ==
  LET r == G.rules[ri]
      c == IF st.p < txt.n THEN txt.cpAt[st.p] ELSE -1
      fail(as) == [ok |-> FALSE, len |-> 0, c |-> -1, atts |-> as \cup {Attempt(st.p, KClass(r.name))}]
  IN IF r.checks # <<>> /\ (c = -1 \/ \E i \in 1..Len(r.checks) : ~CharCheckOracle(r.checks[i], c))
     THEN fail({})
     ELSE LET pr == CharParts(r.parts, 1, st) IN
          IF pr.ok THEN pr ELSE fail(pr.atts)

CharParts(parts, i, st) ==
  IF i > Len(parts) THEN [ok |-> FALSE, len |-> 0, c |-> -1, atts |-> {}]
  ELSE LET pt == parts[i]
           b0 == ByteAt(txt, st.p)
           c  == IF st.p < txt.n THEN txt.cpAt[st.p] ELSE -1
           one == CASE pt.k = "lit" ->
                        IF IsAscii(pt.c)
                        THEN IF b0 = pt.c THEN [ok |-> TRUE, len |-> 1, c |-> pt.c, atts |-> {}]
                             ELSE [ok |-> FALSE, len |-> 0, c |-> -1, atts |-> {Attempt(st.p, KChar(pt.c))}]
                        ELSE IF StartsWithBytes(txt, st.p, Utf8(pt.c))
                             THEN [ok |-> TRUE, len |-> W(pt.c), c |-> pt.c, atts |-> {}]
                             ELSE [ok |-> FALSE, len |-> 0, c |-> -1, atts |-> {Attempt(st.p, KChar(pt.c))}]
                    [] pt.k = "range" ->
                        IF IsAscii(pt.lo) /\ IsAscii(pt.hi)
                        THEN IF b0 # -1 /\ pt.lo <= b0 /\ b0 <= pt.hi
                             THEN [ok |-> TRUE, len |-> 1, c |-> b0, atts |-> {}]
                             ELSE [ok |-> FALSE, len |-> 0, c |-> -1, atts |-> {Attempt(st.p, KRange(pt.lo, pt.hi))}]
                        ELSE IF c # -1 /\ pt.lo <= c /\ c <= pt.hi
                             THEN [ok |-> TRUE, len |-> W(c), c |-> c, atts |-> {}]
                             ELSE [ok |-> FALSE, len |-> 0, c |-> -1, atts |-> {Attempt(st.p, KRange(pt.lo, pt.hi))}]
                    [] pt.k = "ref" -> CharRuleEval(pt.ri, st)
       IN IF one.ok THEN one
          ELSE LET rest == CharParts(parts, i + 1, st) IN
               IF rest.ok THEN rest ELSE [rest EXCEPT !.atts = @ \cup one.atts]

CallChar ==
  /\ Ready("call") /\ Node(G, ctl.e).ri > 0 /\ G.rules[Node(G, ctl.e).ri].kind = "char"
  /\ LET n == Node(G, ctl.e)
         st == ctl.st
         r == CharRuleEval(n.ri, st)
     IN IF r.ok
        THEN /\ ctl' = RetOk([st EXCEPT !.p = st.p + r.len], CallMs(n, VChar(r.c)))
             /\ att' = att
        ELSE /\ ctl' = RetErr(Rep(st, KClass(G.rules[n.ri].name)))
             /\ att' = Att(r.atts)
  /\ UNCHANGED <<gi, txt, stack, cache, depth, evals, hist>>

\* @extern rules: the user function sees the remaining input; not traced
CallExtern ==
  /\ Ready("call") /\ Node(G, ctl.e).ri > 0 /\ G.rules[Node(G, ctl.e).ri].kind = "extern"
  /\ LET n == Node(G, ctl.e)
         st == ctl.st
         r == G.rules[n.ri]
         x == ExternOracle(r.fn, Rest(txt, st.p))
     IN /\ hist' = Log([ev |-> "ext", r |-> r.name, p |-> st.p])
        /\ IF x.panic
           THEN \* the user's function panics: every frame is unwound (no tracer exit, no cache store) and the
                \* caller of parse() gets the panic; nothing of this call survives it (the cache is per call)
                /\ ctl' = [m |-> "done", ok |-> FALSE, upanic |-> TRUE, st |-> st, v |-> <<>>,
                           err |-> [p |-> st.p, k |-> KExtern(x.msg)]]
                /\ stack' = <<>> /\ depth' = 0 /\ att' = att
           ELSE /\ UNCHANGED <<stack, depth>>
                /\ IF x.ok
                   THEN /\ ctl' = RetOk([st EXCEPT !.p = st.p + x.n], CallMs(n, x.v))
                        /\ att' = att
                   ELSE TermFail(st, KExtern(x.msg))
  /\ UNCHANGED <<gi, txt, cache, evals>>

---------------------------------------------------------------------------
\* sequences
SeqEnter ==
  /\ ctl.m = "eval" /\ Node(G, ctl.e).k = "seq"
  /\ LET n == Node(G, ctl.e) IN
     IF n.ps = <<>>
     THEN ctl' = RetOk(ctl.st, <<>>) /\ stack' = stack
     ELSE /\ stack' = Push([k |-> "seq", e |-> ctl.e, i |-> 1, acc |-> <<>>, skip |-> ctl.skip])
          /\ ctl' = Eval(n.ps[1], ctl.st, ctl.skip, FALSE)
  /\ UNCHANGED <<gi, txt, cache, depth, evals, att, hist>>

SeqNext ==
  /\ ctl.m = "ret" /\ ctl.ok /\ stack # <<>> /\ Top.k = "seq"
  /\ LET ps == Node(G, Top.e).ps IN
     IF Top.i < Len(ps)
     THEN /\ stack' = ReplTop([Top EXCEPT !.i = @ + 1, !.acc = @ \o ctl.ms])
          /\ ctl' = Eval(ps[Top.i + 1], ctl.st, Top.skip, FALSE)
     ELSE /\ stack' = Pop
          /\ ctl' = RetOk(ctl.st, Top.acc \o ctl.ms)
  /\ UNCHANGED <<gi, txt, cache, depth, evals, att, hist>>

SeqFail ==     \* the `?` operator: the first error is returned unchanged
  /\ ctl.m = "ret" /\ ~ctl.ok /\ stack # <<>> /\ Top.k = "seq"
  /\ stack' = Pop /\ ctl' = ctl
  /\ UNCHANGED <<gi, txt, cache, depth, evals, att, hist>>

\* ordered choice
ChoiceEnter ==
  /\ ctl.m = "eval" /\ Node(G, ctl.e).k = "choice"
  /\ stack' = Push([k |-> "choice", e |-> ctl.e, i |-> 1, st |-> ctl.st, skip |-> ctl.skip])
  /\ ctl' = Eval(Node(G, ctl.e).as[1], ctl.st, ctl.skip, FALSE)
  /\ UNCHANGED <<gi, txt, cache, depth, evals, att, hist>>

AltOk ==       \* the first success wins
  /\ ctl.m = "ret" /\ ctl.ok /\ stack # <<>> /\ Top.k = "choice"
  /\ stack' = Pop /\ ctl' = ctl
  /\ UNCHANGED <<gi, txt, cache, depth, evals, att, hist>>

AltFail ==     \* record_error into the saved state; next alternative from there
  /\ ctl.m = "ret" /\ ~ctl.ok /\ stack # <<>> /\ Top.k = "choice"
  /\ LET as == Node(G, Top.e).as
         c  == Rec(Top.st, ctl.err)
     IN IF Top.i < Len(as)
        THEN /\ stack' = ReplTop([Top EXCEPT !.i = @ + 1, !.st = c])
             /\ ctl' = Eval(as[Top.i + 1], c, Top.skip, FALSE)
        ELSE /\ stack' = Pop
             /\ ctl' = RetErr(Fa(c))
  /\ UNCHANGED <<gi, txt, cache, depth, evals, att, hist>>

\* optional
OptEnter ==
  /\ ctl.m = "eval" /\ Node(G, ctl.e).k = "opt"
  /\ stack' = Push([k |-> "opt", st |-> ctl.st])
  /\ ctl' = Eval(Node(G, ctl.e).b, ctl.st, ctl.skip, FALSE)
  /\ UNCHANGED <<gi, txt, cache, depth, evals, att, hist>>

OptOk ==
  /\ ctl.m = "ret" /\ ctl.ok /\ stack # <<>> /\ Top.k = "opt"
  /\ stack' = Pop /\ ctl' = ctl
  /\ UNCHANGED <<gi, txt, cache, depth, evals, att, hist>>

OptFail ==     \* never fails; the error is folded into the saved state
  /\ ctl.m = "ret" /\ ~ctl.ok /\ stack # <<>> /\ Top.k = "opt"
  /\ stack' = Pop
  /\ ctl' = RetOk(Rec(Top.st, ctl.err), <<>>)
  /\ UNCHANGED <<gi, txt, cache, depth, evals, att, hist>>

\* closures
CloEnter ==
  /\ ctl.m = "eval" /\ Node(G, ctl.e).k = "clo"
  /\ stack' = Push([k |-> "clo", e |-> ctl.e, st |-> ctl.st, n |-> 0, acc |-> <<>>, skip |-> ctl.skip])
  /\ ctl' = Eval(Node(G, ctl.e).b, ctl.st, ctl.skip, FALSE)
  /\ UNCHANGED <<gi, txt, cache, depth, evals, att, hist>>

CloIter ==
  /\ ctl.m = "ret" /\ ctl.ok /\ stack # <<>> /\ Top.k = "clo"
  /\ stack' = ReplTop([Top EXCEPT !.st = ctl.st, !.n = @ + 1, !.acc = @ \o ctl.ms])
  /\ ctl' = Eval(Node(G, Top.e).b, ctl.st, Top.skip, FALSE)
  /\ UNCHANGED <<gi, txt, cache, depth, evals, att, hist>>

CloStop ==
  /\ ctl.m = "ret" /\ ~ctl.ok /\ stack # <<>> /\ Top.k = "clo"
  /\ LET c == Rec(Top.st, ctl.err) IN
     /\ stack' = Pop
     /\ ctl' = IF Node(G, Top.e).plus /\ Top.n = 0 THEN RetErr(Fa(c)) ELSE RetOk(c, Top.acc)
  /\ UNCHANGED <<gi, txt, cache, depth, evals, att, hist>>

\* lookaheads
NegEnter ==
  /\ ctl.m = "eval" /\ Node(G, ctl.e).k = "neg"
  /\ stack' = Push([k |-> "neg", st |-> ctl.st])
  /\ ctl' = Eval(Node(G, ctl.e).b, ctl.st, ctl.skip, FALSE)
  /\ UNCHANGED <<gi, txt, cache, depth, evals, att, hist>>

NegOk ==       \* the body failed: succeed, consume nothing, inner errors dropped
  /\ ctl.m = "ret" /\ ~ctl.ok /\ stack # <<>> /\ Top.k = "neg"
  /\ stack' = Pop
  /\ ctl' = RetOk(Top.st, <<>>)
  /\ att' = Relabel(att, LaDepth, Dropped)
  /\ UNCHANGED <<gi, txt, cache, depth, evals, hist>>

NegFail ==     \* the body matched
  /\ ctl.m = "ret" /\ ctl.ok /\ stack # <<>> /\ Top.k = "neg"
  /\ stack' = Pop
  /\ ctl' = RetErr(Rep(Top.st, KNeg))
  /\ att' = Att({[p |-> Top.st.p, k |-> KNeg, la |-> LaDepth - 1]}) \cup Relabel(att, LaDepth, Dropped)
  /\ UNCHANGED <<gi, txt, cache, depth, evals, hist>>

PosEnter ==
  /\ ctl.m = "eval" /\ Node(G, ctl.e).k = "pos"
  /\ stack' = Push([k |-> "pos", st |-> ctl.st])
  /\ ctl' = Eval(Node(G, ctl.e).b, ctl.st, ctl.skip, FALSE)
  /\ UNCHANGED <<gi, txt, cache, depth, evals, att, hist>>

PosOk ==       \* succeed, consume nothing, inner errors dropped
  /\ ctl.m = "ret" /\ ctl.ok /\ stack # <<>> /\ Top.k = "pos"
  /\ stack' = Pop
  /\ ctl' = RetOk(Top.st, <<>>)
  /\ att' = Relabel(att, LaDepth, Dropped)
  /\ UNCHANGED <<gi, txt, cache, depth, evals, hist>>

PosFail ==     \* the inner error is the error: the inner failures count at the enclosing level
  /\ ctl.m = "ret" /\ ~ctl.ok /\ stack # <<>> /\ Top.k = "pos"
  /\ stack' = Pop /\ ctl' = ctl
  /\ att' = Relabel(att, LaDepth, LaDepth - 1)
  /\ UNCHANGED <<gi, txt, cache, depth, evals, hist>>

\* >Rule: the definition of the rule, under the includer's settings
IncEnter ==
  /\ ctl.m = "eval" /\ Node(G, ctl.e).k = "inc"
  /\ ctl' = Eval(G.rules[Node(G, ctl.e).ri].body, ctl.st, ctl.skip, FALSE)
  /\ UNCHANGED <<gi, txt, stack, cache, depth, evals, att, hist>>

---------------------------------------------------------------------------
\* calls of normal rules
RuleEnter ==
  /\ Ready("call") /\ Node(G, ctl.e).ri > 0 /\ G.rules[Node(G, ctl.e).ri].kind = "rule"
  /\ EnterRule(Node(G, ctl.e).ri, ctl.st, ctl.e, ctl.skip)
  /\ UNCHANGED <<gi, txt, cache, evals, att>>

IsMemo(r) == r.memoize /\ ~r.leftrec

StartBody(ri, st) ==
  /\ ctl' = Eval(G.rules[ri].body, st, G.rules[ri].skip, FALSE)
  /\ evals' = IF G.lean THEN evals ELSE EvInc(ri, st.p)

PlainBody ==
  /\ ctl.m = "rule" /\ ~G.rules[ctl.ri].memoize /\ ~G.rules[ctl.ri].leftrec
  /\ StartBody(ctl.ri, ctl.st)
  /\ UNCHANGED <<gi, txt, stack, cache, depth, att, hist>>

\* the body returned: build the value, run the checks (failure is reported at the
\* end of the match)
RuleBody ==
  /\ ctl.m = "ret" /\ stack # <<>> /\ Top.k = "rule"
  /\ LET ri == Top.ri
         r  == G.rules[ri]
         m  == IF r.memoize \/ r.leftrec THEN "rres" ELSE "rret"
     IN IF ~ctl.ok
        THEN ctl' = RuleErr(m, ctl.err) /\ att' = att /\ hist' = hist
        ELSE LET v == Build(G, txt, ri, FT(ri), ctl.ms, Top.st0.p, ctl.st.p)
                 bad == {i \in 1..Len(r.checks) : ~CheckOracle(r.checks[i], v)}
                 nchk == IF bad = {} THEN Len(r.checks) ELSE CHOOSE i \in bad : \A j \in bad : i <= j
             IN /\ hist' = LogAll([i \in 1..nchk |-> [ev |-> "chk", r |-> r.name, p |-> ctl.st.p]])
                /\ IF bad = {}
                   THEN ctl' = RuleOk(m, ctl.st, v) /\ att' = att
                   ELSE LET kind == KCheck(r.checks[nchk].name) IN
                        /\ ctl' = RuleErr(m, Rep(ctl.st, kind))
                        /\ att' = Att({Attempt(ctl.st.p, kind)})
  /\ UNCHANGED <<gi, txt, stack, cache, depth, evals>>

\* tracer result, nesting - 1; hand the result to the calling construct
RuleExit ==
  /\ ctl.m = "rret" /\ stack # <<>> /\ Top.k = "rule"
  /\ depth' = depth - 1
  /\ hist' = Log([ev |-> "exit", r |-> G.rules[Top.ri].name,
                           p |-> IF ctl.ok THEN ctl.st.p ELSE ctl.err.p])
  /\ stack' = Pop
  /\ IF Top.ce = 0
     THEN ctl' = [ctl EXCEPT !.m = "fin"]
     ELSE IF ctl.ok
          THEN ctl' = RetOk(ctl.st, IF Top.ce = -1 THEN <<>> ELSE CallMs(Node(G, Top.ce), ctl.v))
          ELSE ctl' = RetErr(ctl.err)
  /\ UNCHANGED <<gi, txt, cache, evals, att>>

Finish ==
  /\ ctl.m = "fin"
  /\ ctl' = [ctl EXCEPT !.m = "done"]
  /\ UNCHANGED <<gi, txt, stack, cache, depth, evals, att, hist>>

---------------------------------------------------------------------------
\* @memoize
MemoHit ==
  /\ ctl.m = "rule" /\ IsMemo(G.rules[ctl.ri]) /\ <<ctl.ri, ctl.st.p>> \in DOMAIN cache
  /\ ctl' = [cache[<<ctl.ri, ctl.st.p>>] EXCEPT !.m = "rret"]
  /\ hist' = Log([ev |-> "info", r |-> "hit", p |-> ctl.st.p])
  /\ UNCHANGED <<gi, txt, stack, cache, depth, evals, att>>

MemoMiss ==
  /\ ctl.m = "rule" /\ IsMemo(G.rules[ctl.ri]) /\ ~(<<ctl.ri, ctl.st.p>> \in DOMAIN cache)
  /\ StartBody(ctl.ri, ctl.st)
  /\ UNCHANGED <<gi, txt, stack, cache, depth, att, hist>>

MemoStore ==   \* successes and failures alike
  /\ ctl.m = "rres" /\ stack # <<>> /\ Top.k = "rule" /\ IsMemo(G.rules[Top.ri])
  /\ cache' = (<<Top.ri, Top.st0.p>> :> ctl) @@ cache
  /\ ctl' = [ctl EXCEPT !.m = "rret"]
  /\ UNCHANGED <<gi, txt, stack, depth, evals, att, hist>>

---------------------------------------------------------------------------
\* @leftrec
LrHit ==
  /\ ctl.m = "rule" /\ G.rules[ctl.ri].leftrec /\ <<ctl.ri, ctl.st.p>> \in DOMAIN cache
  /\ ctl' = [cache[<<ctl.ri, ctl.st.p>>] EXCEPT !.m = "rret"]
  /\ hist' = Log([ev |-> "info", r |-> "lrhit", p |-> ctl.st.p])
  /\ UNCHANGED <<gi, txt, stack, cache, depth, evals, att>>

LrSeed ==      \* plant the sentinel failure, start the first evaluation
  /\ ctl.m = "rule" /\ G.rules[ctl.ri].leftrec /\ ~(<<ctl.ri, ctl.st.p>> \in DOMAIN cache)
  /\ LET best == RuleErr("best", Rep(ctl.st, KSentinel)) IN
     /\ cache' = (<<ctl.ri, ctl.st.p>> :> best) @@ cache
     /\ stack' = ReplTop([Top EXCEPT !.best = best])
  /\ hist' = Log([ev |-> "info", r |-> "lrloop", p |-> ctl.st.p])
  /\ StartBody(ctl.ri, ctl.st)
  /\ UNCHANGED <<gi, txt, depth, att>>

\* the new result extends the best one strictly (or is the first success): keep it, go round again
LrGrow ==
  /\ ctl.m = "rres" /\ stack # <<>> /\ Top.k = "rule" /\ G.rules[Top.ri].leftrec
  /\ ctl.ok /\ (Top.best.ok => ctl.st.p > Top.best.st.p)
  /\ LET best == [ctl EXCEPT !.m = "best"] IN
     /\ cache' = (<<Top.ri, Top.st0.p>> :> best) @@ cache
     /\ stack' = ReplTop([Top EXCEPT !.best = best])
  /\ hist' = Log([ev |-> "info", r |-> "lrloop", p |-> Top.st0.p])
  /\ StartBody(Top.ri, Top.st0)
  /\ UNCHANGED <<gi, txt, depth, att>>

\* no progress, or the re-evaluation failed: the best result so far is the result
LrStop ==
  /\ ctl.m = "rres" /\ stack # <<>> /\ Top.k = "rule" /\ G.rules[Top.ri].leftrec
  /\ ~(ctl.ok /\ (Top.best.ok => ctl.st.p > Top.best.st.p))
  /\ IF ~ctl.ok /\ ~Top.best.ok
     THEN \* nothing matched at all: the real error replaces the sentinel
          /\ cache' = (<<Top.ri, Top.st0.p>> :> [ctl EXCEPT !.m = "best"]) @@ cache
          /\ ctl' = [ctl EXCEPT !.m = "rret"]
     ELSE /\ cache' = cache
          /\ ctl' = [Top.best EXCEPT !.m = "rret"]
  /\ UNCHANGED <<gi, txt, stack, depth, evals, att, hist>>

---------------------------------------------------------------------------
Next ==
  \/ Begin \/ Finish
  \/ SkipWsBuiltin \/ SkipWsUser \/ WsUserOk \/ WsUserFail
  \/ Lit \/ Range \/ Eoi \/ AnyChar \/ BuiltinWs \/ CallChar \/ CallExtern
  \/ SeqEnter \/ SeqNext \/ SeqFail
  \/ ChoiceEnter \/ AltOk \/ AltFail
  \/ OptEnter \/ OptOk \/ OptFail
  \/ CloEnter \/ CloIter \/ CloStop
  \/ NegEnter \/ NegOk \/ NegFail \/ PosEnter \/ PosOk \/ PosFail
  \/ IncEnter
  \/ RuleEnter \/ PlainBody \/ RuleBody \/ RuleExit
  \/ MemoHit \/ MemoMiss \/ MemoStore
  \/ LrHit \/ LrSeed \/ LrGrow \/ LrStop

Spec == Init /\ [][Next]_vars
FairSpec == Spec /\ WF_vars(Next)

Done == ctl.m = "done"
\* the call ended with a panic of a user function (not a result)
UPanic == Done /\ "upanic" \in DOMAIN ctl

---------------------------------------------------------------------------
(* Properties                                                              *)
---------------------------------------------------------------------------
D == Denot(G, txt)

\* C01: acceptance and consumed length are those of the reference semantics
Conforms == Done /\ ~UPanic => /\ ctl.ok = D.ok
                               /\ (ctl.ok => ctl.st.p = D.p)

\* C02 / C09: the tree, ranges included
TreeExact == Done /\ ctl.ok /\ D.ok => ctl.v = D.v

\* C01 / C07 termination, safety form: a rule is never re-entered at the same
\* offset while it is still active, except through the left-recursion cache
RuleFrames == {i \in 1..Len(stack) : stack[i].k = "rule"}
\* (checked when a frame has just been pushed, against every frame below it: by induction that is
\* the property for all pairs)
\* A rule that is not @leftrec itself may be active twice at one offset only around an active @leftrec
\* rule at that offset (L = @:LP | @:A; LP = l:*L ...; with whitespace skipped before LP is called from
\* L at an earlier offset, LP is entered at p, calls L at p, whose seed enters LP at p again: the inner
\* reference to L is then answered from the growth cache).  An active @leftrec rule is on the stack at most
\* once per offset, so the number of frames per offset stays bounded by the grammar.
NoReentry ==
  ctl.m = "rule" =>
    \A i \in 1..(Len(stack) - 1) :
       (stack[i].k = "rule" /\ stack[i].ri = Top.ri /\ stack[i].st0.p = Top.st0.p)
          => \/ G.rules[Top.ri].leftrec
             \/ \E j \in (i + 1)..(Len(stack) - 1) :
                   /\ stack[j].k = "rule" /\ stack[j].st0.p = Top.st0.p
                   /\ G.rules[stack[j].ri].kind = "rule" /\ G.rules[stack[j].ri].leftrec

\* every closure iteration consumes, every growth step is strictly further
CloProgress == [][CloIter => ctl.st.p > Top.st.p]_vars
LrProgress  == [][(LrGrow /\ Top.best.ok) => ctl.st.p > Top.best.st.p]_vars

\* C04: every cursor value is on a character boundary inside the input
IsBoundary(p) == p \in 0..txt.n /\ (p = txt.n \/ txt.cpAt[p] # -1)
OnBoundary ==
  /\ (ctl.m \in {"eval", "rule"} => IsBoundary(ctl.st.p))
  /\ (ctl.m \in {"ret", "rret", "rres", "fin", "done"} /\ ctl.ok => IsBoundary(ctl.st.p))
  /\ (ctl.m \in {"ret", "rret", "rres", "fin", "done"} /\ ~ctl.ok => IsBoundary(ctl.err.p))

\* C06: a memoized body is evaluated at most once per offset
Memoized == {ri \in 1..NumRules(G) : G.rules[ri].kind = "rule" /\ IsMemo(G.rules[ri])}
Packrat == \A k \in DOMAIN evals : k[1] \in Memoized => evals[k] <= 1

AllMemoized == \A ri \in 1..NumRules(G) : G.rules[ri].kind = "rule" => IsMemo(G.rules[ri])
RECURSIVE SumF(_, _)
SumF(f, S) == IF S = {} THEN 0 ELSE LET x == CHOOSE x \in S : TRUE IN f[x] + SumF(f, S \ {x})
TotalEvals == SumF(evals, DOMAIN evals)
PackratBound == AllMemoized => TotalEvals <= NumRules(G) * (txt.n + 1)

\* C03 / C02: the number of matches of each field fits the declared arity
CountSound ==
  (ctl.m = "ret" /\ ctl.ok /\ stack # <<>> /\ Top.k = "rule" /\ ~G.rules[Top.ri].string)
     => CountSoundAt(FT(Top.ri), ctl.ms)

\* C10
Failed == Done /\ ~ctl.ok /\ ~UPanic
AttMust == {a.p : a \in {x \in att : x.la = 0}}
AttAll  == {a.p : a \in att}
MaxOf(S) == CHOOSE x \in S : \A y \in S : y <= x
NoMemoNoLr == \A ri \in 1..NumRules(G) : G.rules[ri].kind = "rule" => ~G.rules[ri].memoize /\ ~G.rules[ri].leftrec
\* the sentinel planted by LrSeed is not a match attempt (it is not in att); it cannot
\* surface when left-recursive rules list their recursive alternatives first (G.lrfirst)
RealFailure == Failed /\ ~G.lean => /\ ctl.err.p \in AttAll
                         /\ ctl.err.p \in Boundaries(txt)
                         /\ (G.lrfirst => \E a \in att : a.p = ctl.err.p /\ a.k = ctl.err.k)
                         /\ ctl.err.k.k # "Other"
NoSentinel == Failed /\ G.lrfirst => ctl.err.k.k # "Sentinel"
\* without memoized / left-recursive rules the reported position is exactly the furthest attempt
\* that counts (made outside lookaheads, or handed out by a positive lookahead that failed)
FurthestFail == Failed /\ NoMemoNoLr /\ ~G.lean => AttMust # {} /\ ctl.err.p = MaxOf(AttMust)

\* C19: entries and exits nest, the depth never underflows
Balanced == depth >= 0 /\ (Done => depth = 0) /\ depth = Cardinality(RuleFrames)

\* C05 / C20: every call starts from an empty cache
FreshCache == [][Begin => cache' = <<>>]_vars

TypeOK ==
  /\ depth \in Nat
  /\ ctl.m \in {"start", "eval", "ret", "rule", "rres", "rret", "fin", "done"}
=============================================================================
