CONSTANTS
  Shortcut = "impl"
  Format = TRUE
  Depth = 4
SPECIFICATION Spec
CHECK_DEADLOCK FALSE
INVARIANT FreshExceptKnown
INVARIANT Answers
INVARIANT Replay
PROPERTY UntouchedExceptKnown
PROPERTY FailSafe
