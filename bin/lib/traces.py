"""Traces recorded from the real code -> ndjson -> validated by TLC against the monitor specs."""
import json
import os
import re

import vlib
from vlib import ToolError, log

import dbgparse


def boundaries(text):
    out = [0]
    p = 0
    for ch in text:
        p += len(ch.encode("utf-8"))
        out.append(p)
    return out


def events_of(case, kind):
    """the event lines of one parse for a monitor kind"""
    a = case.act
    text = case.text
    n = len(text.encode("utf-8"))
    res = a.get("res", {})
    panic = case.crashed
    ev = []
    if kind == "nesting":
        ev.append({"ev": "begin", "case": 0})
        for e in a.get("events", []):
            if e["ev"] in ("enter", "exit"):
                ev.append({"ev": e["ev"], "r": e.get("r", ""), "p": e["p"]})
        same = bool(a.get("rec_same")) and a.get("ind_same") is not False
        ev.append({"ev": "end", "same": same, "panic": panic})
    elif kind == "packrat":
        meta = case.g.meta
        probes = [meta["probes"][r]["fn"] for r in meta.get("memo", [])]
        bound = meta["nrules"] * (n + 1) if meta.get("all_memo") else 0
        ev.append({"ev": "begin", "case": 0, "n": n, "probes": probes, "bound": bound})
        for e in a.get("user", []):
            if e["ev"] == "ext":
                ev.append({"ev": "ext", "r": e["r"], "p": e["p"]})
        ev.append({"ev": "end"})
    elif kind == "boundary":
        ev.append({"ev": "begin", "case": 0, "n": n, "bounds": boundaries(text)})
        for f, ln, _ in a.get("advs", []):
            ev.append({"ev": "adv", "from": f, "len": ln})
        for p, _k in a.get("fails", []):
            ev.append({"ev": "fail", "p": p})
        for e in a.get("events", []):
            if e["ev"] in ("enter", "exit"):
                ev.append({"ev": e["ev"], "p": e["p"]})
        for e in a.get("user", []):
            if e["ev"] == "ext":
                ev.append({"ev": "ext", "p": e["p"]})
        substr = True
        if res.get("ok"):
            t = case.tree
            for (x, y) in dbgparse.ranges_of(t):
                ev.append({"ev": "pos", "from": x, "to": y})
            substr = all(s in text for s in dbgparse.strings_of(t))
        ev.append({"ev": "end", "ok": bool(res.get("ok")), "errp": res.get("errp", 0), "panic": panic,
                   "substr": substr})
    elif kind == "cache":
        ev.append({"ev": "begin", "case": 0})
        for e in a.get("events", []):
            if e["ev"] == "enter":
                ev.append({"ev": "enter", "r": e["r"], "p": e["p"]})
            elif e["ev"] == "exit":
                ev.append({"ev": "exit"})
            elif e["ev"] == "info":
                ev.append({"ev": "info", "t": e["t"]})
        ev.append({"ev": "end"})
    else:
        raise ValueError(kind)
    return ev


def write_trace(path, cases, kind, event_fn=events_of):
    """-> list mapping line number (1-based) -> case index"""
    owner = []
    with open(path, "w") as f:
        for i, c in enumerate(cases):
            for e in event_fn(c, kind):
                if e["ev"] == "begin":
                    e["case"] = i
                f.write(json.dumps(e, separators=(",", ":")) + "\n")
                owner.append(i)
    return owner


MONITORS = {"nesting": "NestingMonitor", "packrat": "PackratMonitor", "boundary": "BoundaryMonitor",
            "cache": "CacheMonitor"}


def validate(kind, path, nlines, timeout=1800, module=None):
    """TLC trace validation; -> (accepted, rejected_line or None, stats)"""
    mod = module or MONITORS[kind]
    out = path + ".tlc.out"
    rc, secs = vlib.run_tlc(mod + ".tla", mod + ".cfg", out, env={"TRACE": path}, workers=1, timeout=timeout,
                            deque=True, heap="8g")
    txt = open(out, errors="replace").read()
    m = re.search(r'<<"REJECTED", (\d+), "(.*)">>', txt)
    st = re.search(r"(\d+) states generated, (\d+) distinct states found", txt)
    stats = {"states": int(st.group(2)) if st else 0, "secs": secs, "rc": rc}
    if rc == -9:
        raise ToolError("trace validation timed out (%s)" % mod)
    if m:
        return False, int(m.group(1)), stats
    if rc != 0:
        raise ToolError("trace validation failed (%s rc=%d), see %s" % (mod, rc, out))
    if stats["states"] != nlines + 1:
        raise ToolError("trace validation consumed %d of %d lines without rejecting (%s)" % (
            stats["states"] - 1, nlines, mod))
    return True, None, stats


def validate_cases(kind, cases, workdir, name, event_fn=events_of, module=None):
    """validate the traces of all cases; -> (first rejected case or None, rejected event, stats)"""
    os.makedirs(workdir, exist_ok=True)
    path = os.path.join(workdir, "trace_%s_%s.ndjson" % (kind, name))
    owner = write_trace(path, cases, kind, event_fn)
    if not owner:
        raise ToolError("empty trace")
    ok, line, stats = validate(kind, path, len(owner), module=module)
    stats["events"] = len(owner)
    stats["traces"] = len(cases)
    if ok:
        return None, None, stats
    ev = open(path).read().split("\n")[line - 1]
    return cases[owner[line - 1]], ev, stats
