"""Driver library: corpus materialisation, TLC runs, harness builds, runner execution, caching.

Everything lives under /verif/work/<tier>/<family>/ (git-ignored).  Artifacts are keyed by a
content hash of /repo's sources, of the machinery itself, the tier and the seed, so several checks
run back to back share one build - but always rebuild from /repo's current working tree.
"""
import hashlib
import itertools
import json
import os
import re
import shutil
import subprocess
import sys
import time

VERIF = os.path.dirname(os.path.dirname(os.path.dirname(os.path.abspath(__file__))))
REPO = os.environ.get("VERIF_REPO", "/repo")
WORK = os.path.join(VERIF, "work")
SPEC = os.path.join(VERIF, "spec")
sys.path.insert(0, os.path.join(VERIF, "gen"))

NCPU = os.cpu_count() or 4


class ToolError(Exception):
    """the machinery failed (not the code under test): exit status 2"""


def log(*a):
    print("[verif]", *a, file=sys.stderr, flush=True)


# ----------------------------------------------------------------------------- hashing / cache

def _hash_tree(paths, exts):
    h = hashlib.sha256()
    for root in paths:
        if os.path.isfile(root):
            files = [root]
        else:
            files = []
            for d, dn, fn in os.walk(root):
                dn[:] = sorted(x for x in dn if x not in ("target", ".git", "work", "__pycache__", "evidence"))
                for f in sorted(fn):
                    if f.endswith(exts):
                        files.append(os.path.join(d, f))
        for f in files:
            h.update(f.encode())
            with open(f, "rb") as fh:
                h.update(fh.read())
    return h.hexdigest()[:16]


_repo_hash = None


def repo_hash():
    global _repo_hash
    if _repo_hash is None:
        _repo_hash = _hash_tree([os.path.join(REPO, d) for d in ("runtime", "codegen", "cli", "macro", "test")]
                                + [os.path.join(REPO, "grammar.ebnf"), os.path.join(REPO, "Cargo.toml"),
                                   os.path.join(REPO, "Cargo.lock")],
                                (".rs", ".toml", ".ebnf", ".lock", ".md", ".not_ebnf"))
    return _repo_hash


_tool_hash = None


def tool_hash():
    global _tool_hash
    if _tool_hash is None:
        _tool_hash = _hash_tree([os.path.join(VERIF, d) for d in ("gen", "spec", "harness", "bin")],
                                (".py", ".tla", ".cfg", ".rs", ".toml", ".in", ".lock", "check"))
    return _tool_hash


def cached(dirpath, name, key):
    f = os.path.join(dirpath, name + ".key")
    try:
        return open(f).read() == key
    except OSError:
        return False


def mark(dirpath, name, key):
    with open(os.path.join(dirpath, name + ".key"), "w") as f:
        f.write(key)


def famdir(fam, tier):
    d = os.path.join(WORK, tier, fam)
    os.makedirs(d, exist_ok=True)
    return d


# ----------------------------------------------------------------------------- corpus

def all_inputs(g):
    """the case set of a grammar: every string over alpha up to maxlen, plus the extras"""
    seen = set()
    out = []
    for n in range(g.maxlen + 1):
        for t in itertools.product(g.alpha, repeat=n):
            s = "".join(t)
            if s not in seen:
                seen.add(s)
                out.append(s)
    for x in list(g.extra) + list(getattr(g, "real_extra", [])) + list(getattr(g, "huge_extra", [])):
        s = "".join(x)
        if s not in seen:
            seen.add(s)
            out.append(s)
    return out


def build_corpus(fam, tier, seed, grammars=None):
    """-> (dir, grammars); writes corpus.json, *.ebnf, meta.tsv, cases.tsv"""
    import families
    import peg
    d = famdir(fam, tier)
    cdir = os.path.join(d, "corpus")
    key = "corpus:%s:%s:%s" % (tool_hash(), tier, seed)
    gs = grammars if grammars is not None else families.family(fam, tier, seed)
    if grammars is not None:
        # an explicit member list (C03 drops members that do not compile and rebuilds): the cached corpus
        # must be this very list
        import hashlib
        key += ":" + hashlib.sha1("\n".join("%s %s" % (g.id, g.meta.get("shape")) for g in gs).encode("utf-8")).hexdigest()[:16]
    if cached(d, "corpus", key) and os.path.exists(os.path.join(cdir, "cases.tsv")):
        return cdir, gs
    if os.path.isdir(cdir):
        shutil.rmtree(cdir)
    peg.write_corpus(gs, cdir)
    n = 0
    with open(os.path.join(cdir, "cases.tsv"), "w") as f:
        for g in gs:
            if g.meta.get("flags", "-").find("nocompile") >= 0 or g.meta.get("flags", "-").find("typesonly") >= 0:
                continue
            for s in all_inputs(g):
                f.write("%s\t%s\n" % (g.id, s.encode("utf-8").hex()))
                n += 1
            for line in g.meta.get("synthetic", []):     # inputs described, not spelled (gigabytes): real parsers only
                f.write("%s\t%s\n" % (g.id, line))
                n += 1
    # the long inputs (real_extra) are model-checked too, in lean mode: no ghost variables, no exhaustive part
    import copy
    lean = []
    for g in gs:
        if getattr(g, "real_extra", None) and "nocompile" not in g.meta.get("flags", "-") and "typesonly" not in g.meta.get("flags", "-"):
            h = copy.copy(g)
            h.meta = dict(g.meta)
            h.meta["lean"] = True
            h.maxlen = -1
            h.extra = list(g.real_extra)
            lean.append(h)
    lp = os.path.join(cdir, "corpus_lean.json")
    if lean:
        with open(lp, "w") as f:
            json.dump(peg.corpus_json(lean), f, separators=(",", ":"))
    elif os.path.exists(lp):
        os.remove(lp)
    with open(os.path.join(cdir, "stamp"), "w") as f:
        f.write(key)
    mark(d, "corpus", key)
    log("corpus %s/%s: %d grammars, %d cases" % (fam, tier, len(gs), n))
    return cdir, gs


# ----------------------------------------------------------------------------- TLC

TLC_JAR = "/opt/veriftools/tla/tla2tools.jar:/opt/veriftools/tla/CommunityModules-deps.jar"


def run_tlc(module, cfg, outfile, env=None, workers=None, timeout=3600, metadir=None, extra=(), xss="1g",
            heap="12g", deque=False):
    """runs TLC in spec/, full output to outfile; -> (returncode, seconds)"""
    e = dict(os.environ)
    opts = "-Xss%s" % xss
    if deque:
        opts += " -Dtlc2.tool.queue.IStateQueue=StateDeque"
    e["JAVA_TOOL_OPTIONS"] = opts
    if env:
        e.update(env)
    metadir = metadir or (outfile + ".md")
    shutil.rmtree(metadir, ignore_errors=True)
    # (-Xss on the command line too: the launcher sizes the main thread, which computes the initial states, from it)
    cmd = ["java", "-Xss" + xss, "-XX:+UseParallelGC", "-Xmx" + heap, "-cp", TLC_JAR, "tlc2.TLC",
           "-workers", str(workers or NCPU), "-metadir", metadir, "-cleanup", "-noGenerateSpecTE",
           "-config", cfg] + list(extra) + [module]
    t0 = time.time()
    with open(outfile, "w") as out:
        try:
            p = subprocess.run(cmd, cwd=SPEC, env=e, stdout=out, stderr=subprocess.STDOUT, timeout=timeout)
            rc = p.returncode
        except subprocess.TimeoutExpired:
            rc = -9
    shutil.rmtree(metadir, ignore_errors=True)
    return rc, time.time() - t0


def parse_tlc_output(outfile):
    """-> dict(replays=[...], states, distinct, violation (text or None), coverage={action: count}, errors)"""
    res = {"replays": [], "states": 0, "distinct": 0, "violation": None, "coverage": {}, "error": None,
           "depth": 0, "prints": []}
    viol = []
    in_viol = False
    cov_re = re.compile(r"^<(\w+) line \d+, col \d+ to line \d+, col \d+ of module (\w+)>: (\d+):(\d+)")
    with open(outfile, errors="replace") as f:
        for line in f:
            if line.startswith('<<"REPLAY", '):
                try:
                    inner = json.loads(line[len('<<"REPLAY", '):].rstrip()[:-2])
                    res["replays"].append(json.loads(inner))
                except Exception as ex:  # noqa
                    res["error"] = "unparsable REPLAY line: %s" % ex
                continue
            if line.startswith('<<"OUT", '):
                try:
                    inner = json.loads(line[len('<<"OUT", '):].rstrip()[:-2])
                    res["prints"].append(json.loads(inner))
                except Exception as ex:  # noqa
                    res["error"] = "unparsable OUT line: %s" % ex
                continue
            m = re.match(r"^(\d+) states generated, (\d+) distinct states found", line)
            if m:
                res["states"] = int(m.group(1))
                res["distinct"] = int(m.group(2))
            m = re.match(r"^The depth of the complete state graph search is (\d+)", line)
            if m:
                res["depth"] = int(m.group(1))
            m = cov_re.match(line)
            if m:
                res["coverage"][m.group(1)] = res["coverage"].get(m.group(1), 0) + int(m.group(3))
            if line.startswith("Error:"):
                in_viol = True
            if in_viol:
                viol.append(line.rstrip())
                if len(viol) > 400:
                    in_viol = False
    if viol:
        res["violation"] = "\n".join(viol)
    return res


def tlc_corpus(fam, tier, seed, cdir, cfg="MCPeg.cfg", module="MCPeg.tla", workers=None, timeout=3600, corpus="corpus.json"):
    """model-check the PEG machine over a corpus -> parsed result (cached on tool hash)"""
    d = famdir(fam, tier)
    tag = cfg + ("" if corpus == "corpus.json" else ":" + corpus)
    key = "tlc:%s:%s:%s:%s" % (tool_hash(), tier, seed, tag)
    out = os.path.join(d, "tlc_%s%s.out" % (cfg.replace(".cfg", ""), "" if corpus == "corpus.json" else "_lean"))
    pj = out + ".json"
    cfg_key = "tlc_" + cfg + ("" if corpus == "corpus.json" else "_lean")
    if cached(d, cfg_key, key) and os.path.exists(pj):
        return json.load(open(pj))
    rc, secs = run_tlc(module, cfg, out, env={"CORPUS": os.path.join(cdir, corpus)}, workers=workers,
                       timeout=timeout, extra=("-coverage", "1"))
    res = parse_tlc_output(out)
    res["rc"] = rc
    res["secs"] = secs
    log("TLC %s/%s %s: rc=%d %d states (%d distinct) %d behaviours in %.0fs" % (
        fam, tier, cfg, rc, res["states"], res["distinct"], len(res["replays"]), secs))
    if rc == -9:
        raise ToolError("TLC timed out on %s" % fam)
    if rc != 0 and res["violation"] is None:
        raise ToolError("TLC failed (rc=%d), see %s" % (rc, out))
    json.dump(res, open(pj, "w"))
    if rc == 0:
        mark(d, cfg_key, key)
    return res


# ----------------------------------------------------------------------------- harness build / run

def cargo_env():
    e = dict(os.environ)
    e["CARGO_TARGET_DIR"] = os.path.join(WORK, "target")
    e["CARGO_NET_OFFLINE"] = "true"
    e["RUSTFLAGS"] = "--cfg peginator_verif --check-cfg cfg(peginator_verif) -Awarnings"
    e["CARGO_TERM_COLOR"] = "never"
    return e


def crate_dir(fam, tier):
    return os.path.join(WORK, "ws", "%s_%s" % (fam, tier))


def _sync_tree(src, dst, subst):
    """copy a harness crate into work/ws, rewriting the repository / harness paths; files are only
    rewritten when their content changes (so cargo does not rebuild needlessly)"""
    for root, dn, fn in os.walk(src):
        dn[:] = [x for x in dn if x not in ("target",)]
        rel = os.path.relpath(root, src)
        os.makedirs(os.path.join(dst, rel), exist_ok=True)
        for f in fn:
            text = open(os.path.join(root, f), "rb").read()
            if f.endswith((".toml", ".rs", ".lock")):
                t = text.decode("utf-8")
                for a, b in subst:
                    t = t.replace(a, b)
                text = t.encode("utf-8")
            out = os.path.join(dst, rel, f)
            try:
                if open(out, "rb").read() == text:
                    continue
            except OSError:
                pass
            with open(out, "wb") as fh:
                fh.write(text)


def harness_crate(name):
    """harness/<name> materialised under work/ws with its path dependencies pointing at REPO"""
    dst = os.path.join(WORK, "ws", "_" + name)
    _sync_tree(os.path.join(VERIF, "harness", name), dst,
               [("/repo/", REPO + "/"), ("/verif/harness/common", os.path.join(WORK, "ws", "_common"))])
    return dst


def materialise_crate(fam, tier, cdir, extra_deps="", main_rs=None, build_rs=None):
    harness_crate("common")
    cd = crate_dir(fam, tier)
    os.makedirs(os.path.join(cd, "src"), exist_ok=True)
    tpl = os.path.join(VERIF, "harness", "template")

    def put(path, text):
        try:
            if open(path).read() == text:
                return
        except OSError:
            pass
        with open(path, "w") as f:
            f.write(text)

    put(os.path.join(cd, "Cargo.toml"), open(os.path.join(tpl, "Cargo.toml.in")).read()
        .replace("@NAME@", "%s_%s" % (fam, tier)).replace("/repo/", REPO + "/")
        .replace("/verif/harness/common", os.path.join(WORK, "ws", "_common"))
        .replace("@EXTRA_DEPS@", extra_deps.replace("@REPO@", REPO)))
    put(os.path.join(cd, "build.rs"), open(build_rs or os.path.join(tpl, "build.rs")).read())
    put(os.path.join(cd, "src", "main.rs"), open(main_rs or os.path.join(tpl, "main.rs")).read())
    put(os.path.join(cd, "corpus_dir"), cdir + "\n")
    if not os.path.exists(os.path.join(cd, "Cargo.lock")):
        shutil.copy(os.path.join(VERIF, "harness", "Cargo.lock"), os.path.join(cd, "Cargo.lock"))
    return cd


def cargo_build(cd, timeout=3600):
    """-> (ok, stderr text, binary path)"""
    t0 = time.time()
    p = subprocess.run(["cargo", "build", "--offline", "-j", str(NCPU)], cwd=cd, env=cargo_env(),
                       stdout=subprocess.PIPE, stderr=subprocess.PIPE, text=True, timeout=timeout)
    name = open(os.path.join(cd, "Cargo.toml")).read().split('name = "')[1].split('"')[0]
    binp = os.path.join(WORK, "target", "debug", name)
    log("cargo build %s: rc=%d in %.0fs" % (os.path.basename(cd), p.returncode, time.time() - t0))
    return p.returncode == 0, p.stderr, binp


def run_runner(binp, cases, out, indented=False, per_case_timeout=20, total_timeout=3600):
    """runs the family runner over the case file, resuming after crashes/hangs.
    -> list of outcome dicts in case order (crashed cases get {'crash': ...})"""
    if os.path.exists(out):
        os.remove(out)
    ncases = sum(1 for _ in open(cases))
    skip = 0
    crashes = {}
    t_end = time.time() + total_timeout
    devnull = open(os.devnull, "w")
    while skip < ncases:
        cmd = [binp, cases, out, str(skip)] + (["--indented"] if indented else [])
        # a hang shows as no progress in the output file
        p = subprocess.Popen(cmd, stdout=devnull, stderr=devnull)
        last_size, last_change = -1, time.time()
        while True:
            try:
                p.wait(timeout=0.5)
                break
            except subprocess.TimeoutExpired:
                sz = os.path.getsize(out) if os.path.exists(out) else 0
                if sz != last_size:
                    last_size, last_change = sz, time.time()
                elif time.time() - last_change > per_case_timeout:
                    p.kill()
                    p.wait()
                    break
                if time.time() > t_end:
                    p.kill()
                    raise ToolError("runner exceeded the total time limit")
        if p.returncode == 0:
            break
        # find the case that was running
        started = -1
        done = set()
        with open(out) as f:
            cur = None
            for line in f:
                if line.startswith('{"start":'):
                    cur = int(line[9:line.index("}")])
                    started = cur
                elif cur is not None:
                    done.add(cur)
        if started < 0 or started in done:
            raise ToolError("runner died outside a case (rc=%s)" % p.returncode)
        crashes[started] = "timeout" if p.returncode in (-9, None) else "abort rc=%s" % p.returncode
        skip = started + 1
    results = {}
    with open(out) as f:
        cur = None
        for line in f:
            if line.startswith('{"start":'):
                cur = int(line[9:line.index("}")])
            elif cur is not None:
                results[cur] = json.loads(line)
    outl = []
    with open(cases) as f:
        for i, line in enumerate(f):
            gid, hx = line.rstrip("\n").split("\t")
            r = results.get(i)
            if r is None:
                # (a described input of gigabytes, "@...", is not spelled out: [-4], as the runner itself reports it)
                r = {"g": gid, "inp": [-4] if hx.startswith("@") else [ord(c) for c in bytes.fromhex(hx).decode("utf-8")],
                     "crash": crashes.get(i, "no output")}
            outl.append(r)
    return outl


def harness_outcomes(fam, tier, seed, cdir, indented=True, extra_deps="", main_rs=None):
    """build the family crate against /repo's current tree and run all cases
    -> dict(outcomes=[...], build_ok, build_err, front={id: (verdict, msg)})"""
    d = famdir(fam, tier)
    key = "run:%s:%s:%s:%s:%s" % (repo_hash(), tool_hash(), tier, seed, indented)
    pj = os.path.join(d, "outcomes.json")
    if cached(d, "run", key) and os.path.exists(pj):
        return json.load(open(pj))
    cd = materialise_crate(fam, tier, cdir, extra_deps=extra_deps, main_rs=main_rs)
    ok, err, binp = cargo_build(cd)
    front = {}
    fp = os.path.join(cd, "front.tsv")
    if os.path.exists(fp):
        for line in open(fp, newline="\n"):
            f = line.rstrip("\n").split("\t")
            if len(f) >= 2:
                front[f[0]] = (f[1], f[2] if len(f) > 2 else "")
    res = {"build_ok": ok, "build_err": err[-20000:] if not ok else "", "front": front, "outcomes": []}
    if ok:
        t0 = time.time()
        res["outcomes"] = run_runner(binp, os.path.join(cdir, "cases.tsv"), os.path.join(d, "outcomes.jsonl"),
                                     indented=indented)
        log("runner %s/%s: %d cases in %.0fs" % (fam, tier, len(res["outcomes"]), time.time() - t0))
    json.dump(res, open(pj, "w"))
    mark(d, "run", key)
    return res
