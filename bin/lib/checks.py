"""The registered checks, one function per property: (tier, seed, replay) -> Result"""
import json
import os
import time

import props
import vlib
from props import MachineRun, Violation
from vlib import ToolError, log


class Result:
    def __init__(self, level="model_checking"):
        self.level = level
        self.violations = []
        self.coverage = {}
        self.assumptions = []
        self.notes = []

    def add(self, v):
        if v is not None:
            self.violations.append(v)


# ----------------------------------------------------------------------------- conclusion

def load_findings():
    p = os.path.join(vlib.VERIF, "known_findings.json")
    if not os.path.exists(p):
        return []
    return json.load(open(p)).get("findings", [])


def matches(finding, prop, ident):
    if finding.get("property") != prop:
        return False
    return all(ident.get(k) == v for k, v in finding.get("match", {}).items())


def conclude(prop, tier, seed, result, wall):
    findings = load_findings()
    new = []
    known = {}
    for v in result.violations:
        ident = v.ident()
        f = next((f for f in findings if matches(f, prop, ident)), None)
        if f is not None:
            known.setdefault(f.get("id", json.dumps(f["match"], sort_keys=True)), (f, 0))
            k = f.get("id", json.dumps(f["match"], sort_keys=True))
            known[k] = (f, known[k][1] + 1)
        else:
            new.append(v)
    for k, (f, n) in known.items():
        print("KNOWN-FINDING: property=%s %s (%d cases)" % (prop, f.get("what", k), n))
    cov = dict(result.coverage)
    cov.setdefault("known_findings_reobserved", sum(n for _, n in known.values()))
    props.write_evidence(prop, tier, seed, result.level, cov, wall, len(new), result.assumptions)
    for n in result.notes:
        print(n)
    if not new:
        print("OK property=%s tier=%s seed=%d wall=%.0fs" % (prop, tier, seed, wall))
        return 0
    rdir = os.path.join(vlib.WORK, "replay")
    os.makedirs(rdir, exist_ok=True)
    # one line per distinct formula, first witness each (the rest is in the replay file)
    first = {}
    for v in new:
        first.setdefault(v.formula, []).append(v)
    for formula, vs in first.items():
        path = os.path.join(rdir, "%s_%s_%s.json" % (prop, formula.replace("/", "-"), tier))
        d = vs[0].replay(tier, seed)
        d["more_witnesses"] = [w.ident() for w in vs[1:20]]
        d["witness_count"] = len(vs)
        d["replay_cmd"] = "bin/check %s --replay %s" % (prop, path)
        with open(path, "w") as f:
            json.dump(d, f, indent=1)
        print("VIOLATION property=%s replay=%s" % (prop, path))
        print("  %s: %s" % (formula, vs[0].what[:300]))
        if vs[0].case is not None:
            print("  grammar %s (%s) input %r; %d witnesses" % (vs[0].case.gid, vs[0].case.g.meta.get("shape"),
                                                             vs[0].case.text, len(vs)))
    return 1


# ----------------------------------------------------------------------------- machine checks

def machine_runs(prop, fams, tier, seed, replay, indented=False, require=()):
    """MC of the specification + real runs for each family; returns the runs.
    A violated invariant in the *model* is a tool error (the specification contradicts itself)."""
    runs = []
    for fam in fams:
        grammars = None
        rfam = fam
        if replay:
            rp = json.load(open(replay))
            if rp.get("family") != fam:
                continue
            import families
            gs = families.family(fam, rp.get("tier", tier), rp.get("seed", seed))
            g = next((g for g in gs if g.id == rp["grammar_id"]), None)
            if g is None:
                raise ToolError("replay: grammar %s not in family %s" % (rp["grammar_id"], fam))
            g.maxlen = 0
            g.extra = [list(rp["input"])]
            if not all(c in g.alpha for c in rp["input"]):
                g.alpha = list(dict.fromkeys(list(g.alpha) + list(rp["input"])))
            grammars = [g]
            rfam = "replay_" + fam
        run = MachineRun(rfam, tier, seed, grammars=grammars, indented=indented)
        run.fam = fam
        for c in run.cases:
            c.fam = fam
        if not run.real["build_ok"]:
            raise ToolError("generated parsers of family %s do not compile (see C03):\n%s" % (
                fam, run.real["build_err"][-3000:]))
        if not run.model_ok():
            raise ToolError("the specification violates its own invariant on family %s:\n%s" % (
                fam, (run.tlc["violation"] or "")[:3000]))
        runs.append(run)
    if not runs:
        raise ToolError("nothing to run")
    cov = {}
    for r in runs:
        for a, n in r.tlc["coverage"].items():
            cov[a] = cov.get(a, 0) + n
    missing = [a for a in require if cov.get(a, 0) == 0]
    if missing and not replay:
        raise ToolError("vacuity guard: actions never taken by the model on %s: %s" % (fams, missing))
    return runs, cov


def base_coverage(runs, cov, cases, nontrivial, rule, validated):
    return {
        "states": sum(r.tlc["distinct"] for r in runs),
        "transitions": sum(r.tlc["states"] for r in runs),
        "traces_validated_against_impl": validated,
        "evaluations": len(cases),
        "distinct_nontrivial": nontrivial,
        "rule": rule,
        "grammars": sum(len(r.grammars) for r in runs),
        "families": [r.fam for r in runs],
        "tlc_seconds": round(sum(r.tlc["secs"] for r in runs), 1),
        "action_counts": {a: n for a, n in sorted(cov.items()) if n},
        "exhaustive": True,
        "samples": props.sample_cases(cases, 3),
    }


def check_C01(tier, seed, replay):
    res = Result()
    runs, cov = machine_runs("C01", ["ops"], tier, seed, replay,
                             require=("Lit", "Range", "Eoi", "AnyChar", "CallChar", "SeqFail", "AltFail", "OptFail",
                                      "CloIter", "CloStop", "NegOk", "NegFail", "PosOk", "PosFail", "RuleEnter"))
    cases = [c for r in runs for c in r.cases]
    drift = 0
    nontriv = 0
    for c in cases:
        v = props.p_crash("C01", c) or props.p_conforms("C01", c)
        res.add(v)
        if v is None and props.drift(c):
            drift += 1
        if c.inp and c.exp["att"]:
            nontriv += 1
    res.coverage = base_coverage(runs, cov, cases, nontriv,
                                 "every grammar of the family x every string over its alphabet up to its length bound; "
                                 "non-trivial = non-empty input on which at least one match attempt fails (backtracking "
                                 "or rejection is exercised); all cases are distinct (grammar, input) pairs",
                                 len(cases))
    res.coverage["drift"] = drift
    res.assumptions = ["small-scope: expression depth and input length are bounded",
                       "PegDenot is the reading of doc/syntax.md the property refers to"]
    if drift:
        res.notes.append("DRIFT property=C01 %d cases where the tracer callback sequence differs from the machine's "
                         "(no property predicate falsified)" % drift)
    return res


CHECKS = {"C01": check_C01}
