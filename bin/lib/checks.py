"""The registered checks, one function per property: (tier, seed, replay) -> Result"""
import json
import os
import time

import props
import vlib
from props import MachineRun, Violation
from vlib import ToolError, log


class Result:
    def __init__(self, level="model_checking"):
        self.level = level
        self.violations = []
        self.coverage = {}
        self.assumptions = []
        self.notes = []

    def add(self, v):
        if v is not None:
            self.violations.append(v)


# ----------------------------------------------------------------------------- conclusion

def load_findings():
    p = os.path.join(vlib.VERIF, "known_findings.json")
    if not os.path.exists(p):
        return []
    return json.load(open(p)).get("findings", [])


def matches(finding, prop, ident):
    if finding.get("property") != prop:
        return False
    return all(ident.get(k) == v for k, v in finding.get("match", {}).items())


def conclude(prop, tier, seed, result, wall, replay=None):
    findings = load_findings()
    new = []
    known = {}
    for v in result.violations + PENDING:
        ident = v.ident()
        f = next((f for f in findings if matches(f, prop, ident)), None)
        if f is not None:
            known.setdefault(f.get("id", json.dumps(f["match"], sort_keys=True)), (f, 0))
            k = f.get("id", json.dumps(f["match"], sort_keys=True))
            known[k] = (f, known[k][1] + 1)
        else:
            new.append(v)
    for k, (f, n) in known.items():
        print("KNOWN-FINDING: property=%s %s (%d cases)" % (prop, f.get("what", k), n))
    cov = dict(result.coverage)
    cov.setdefault("known_findings_reobserved", sum(n for _, n in known.values()))
    if not replay:      # a replay re-runs one recorded case: it must not replace the evidence of a full run
        props.write_evidence(prop, tier, seed, result.level, cov, wall, len(new), result.assumptions)
    for n in result.notes:
        print(n)
    if not new:
        print("OK property=%s tier=%s seed=%d wall=%.0fs" % (prop, tier, seed, wall))
        return 0
    rdir = os.path.join(vlib.WORK, "replay")
    os.makedirs(rdir, exist_ok=True)
    # one line per distinct formula, first witness each (the rest is in the replay file)
    first = {}
    for v in new:
        first.setdefault(v.formula, []).append(v)
    for formula, vs in first.items():
        path = os.path.join(rdir, "%s_%s_%s.json" % (prop, formula.replace("/", "-"), tier))
        d = vs[0].replay(tier, seed)
        d["more_witnesses"] = [w.ident() for w in vs[1:20]]
        d["witness_count"] = len(vs)
        d["replay_cmd"] = "bin/check %s --replay %s" % (prop, path)
        with open(path, "w") as f:
            json.dump(d, f, indent=1)
        print("VIOLATION property=%s replay=%s" % (prop, path))
        print("  %s: %s" % (formula, vs[0].what[:300]))
        if vs[0].case is not None:
            print("  grammar %s (%s) input %r; %d witnesses" % (vs[0].case.gid, vs[0].case.g.meta.get("shape"),
                                                             vs[0].case.text, len(vs)))
    return 1


# ----------------------------------------------------------------------------- machine checks

PENDING = []      # violations found while the runs are put together; conclude() reports them with the check's own


def machine_runs(prop, fams, tier, seed, replay, indented=True, require=()):
    """MC of the specification + real runs for each family; returns the runs.
    A violated invariant in the *model* is a tool error (the specification contradicts itself)."""
    runs = []
    for fam in fams:
        grammars = None
        rfam = fam
        if replay:
            rp = json.load(open(replay))
            if rp.get("family") != fam:
                continue
            import families
            gs = families.family(fam, rp.get("tier", tier), rp.get("seed", seed))
            g = next((g for g in gs if g.id == rp["grammar_id"]), None)
            if g is None:
                raise ToolError("replay: grammar %s not in family %s" % (rp["grammar_id"], fam))
            g.maxlen = 0
            g.extra = [list(rp["input"])]
            if not all(c in g.alpha for c in rp["input"]):
                g.alpha = list(dict.fromkeys(list(g.alpha) + list(rp["input"])))
            grammars = [g]
            rfam = "replay_" + fam
        run = MachineRun(rfam, tier, seed, grammars=grammars, indented=indented)
        run.fam = fam
        for c in run.cases:
            c.fam = fam
        if not run.real["build_ok"]:
            raise ToolError("generated parsers of family %s do not compile (see C03):\n%s" % (
                fam, run.real["build_err"][-3000:]))
        if not run.model_ok():
            raise ToolError("the specification violates its own invariant on family %s:\n%s" % (
                fam, (run.tlc["violation"] or "")[:3000]))
        runs.append(run)
    if not runs:
        raise ToolError("nothing to run")
    cov = {}
    for r in runs:
        for c in r.upanic_bad:
            c.fam = r.fam
            PENDING.append(Violation(prop, "UserPanic", "a user function panics in this parse; the caller of parse() must get that panic, "
                                     "it gets: %s" % json.dumps(c.act.get("res"))[:200], c))
        for a, n in r.tlc["coverage"].items():
            cov[a] = cov.get(a, 0) + n
    missing = [a for a in require if cov.get(a, 0) == 0]
    if missing and not replay:
        raise ToolError("vacuity guard: actions never taken by the model on %s: %s" % (fams, missing))
    return runs, cov


def base_coverage(runs, cov, cases, nontrivial, rule, validated):
    return {
        "states": sum(r.tlc["distinct"] for r in runs),
        "transitions": sum(r.tlc["states"] for r in runs),
        "traces_validated_against_impl": validated,
        "evaluations": len(cases),
        "distinct_nontrivial": nontrivial,
        "rule": rule,
        "grammars": sum(len(r.grammars) for r in runs),
        "families": [r.fam for r in runs],
        "tlc_seconds": round(sum(r.tlc["secs"] for r in runs), 1),
        "action_counts": {a: n for a, n in sorted(cov.items()) if n},
        "user_panic_cases": sum(len(r.upanic) for r in runs),
        "exhaustive": True,
        "samples": props.sample_cases(cases, 3),
    }


def check_C01(tier, seed, replay):
    res = Result()
    runs, cov = machine_runs("C01", ["ops", "term", "rand", "big"], tier, seed, replay,
                             require=("Lit", "Range", "Eoi", "AnyChar", "CallChar", "SeqFail", "AltFail", "OptFail",
                                      "CloIter", "CloStop", "NegOk", "NegFail", "PosOk", "PosFail", "RuleEnter"))
    cases = [c for r in runs for c in r.cases]
    for r in runs:
        for gid, (verdict, msg) in sorted(r.rejected.items()):
            res.add(Violation("C01", "Generates", "the generator %s on a well-formed grammar (%s: %s): %s" % (
                "panics" if msg.startswith("PANIC") else "answers with an error", r.fam, r.by_g[gid].meta.get("shape"), msg[:300]), None,
                {"name": r.by_g[gid].meta.get("shape"), "site": "generator:" + str(r.by_g[gid].meta.get("shape"))}))
    drift = 0
    nontriv = 0
    for c in cases:
        v = props.p_crash("C01", c) or props.p_conforms("C01", c)
        res.add(v)
        if v is None and props.drift(c):
            drift += 1
        if c.inp and c.exp["att"]:
            nontriv += 1
    res.coverage = base_coverage(runs, cov, cases, nontriv,
                                 "every grammar of the family x every string over its alphabet up to its length bound; "
                                 "non-trivial = non-empty input on which at least one match attempt fails (backtracking "
                                 "or rejection is exercised); all cases are distinct (grammar, input) pairs",
                                 len(cases))
    res.coverage["drift"] = drift
    res.assumptions = ["small-scope: expression depth and input length are bounded",
                       "PegDenot is the reading of doc/syntax.md the property refers to"]
    if drift:
        res.notes.append("DRIFT property=C01 %d cases where the tracer callback sequence differs from the machine's "
                         "(no property predicate falsified)" % drift)
    return res



import traces  # noqa: E402
import dbgparse  # noqa: E402


def generic(prop, fams, tier, seed, replay, preds, rule, nontrivial, require=(), indented=True, assumptions=()):
    """spec > impl over the families: every predicate on every case"""
    res = Result()
    runs, cov = machine_runs(prop, fams, tier, seed, replay, indented=indented, require=require)
    cases = [c for r in runs for c in r.cases]
    for r in runs:
        for gid, (verdict, msg) in sorted(r.rejected.items()):
            g = r.by_g[gid]
            import peg as _peg
            res.add(Violation(prop, "Generates", "the generator %s on a grammar of this property's quantifier (%s: %s), so there is no "
                              "parser to judge: %s" % ("panics" if msg.startswith("PANIC") else "answers with an error", r.fam,
                                                       g.meta.get("shape"), msg[:300]), None,
                              {"name": g.meta.get("shape"), "site": "generator:" + str(g.meta.get("shape")), "grammar": _peg.grammar_text(g)}))
    drift = nt = 0
    for c in cases:
        v = None
        if c.crashed:
            # whatever the property: the specification determines a result for this case and the parser gives none
            v = Violation(prop, "NoPanic/Terminates", "the generated parser did not return: %s" % c.crash_msg, c)
        for p in ([] if v is not None else preds):
            v = p(prop, c)
            if v is not None:
                break
        res.add(v)
        if v is None and not c.crashed and props.drift(c):
            drift += 1
        if nontrivial(c):
            nt += 1
    res.coverage = base_coverage(runs, cov, cases, nt, rule, len(cases))
    res.coverage["drift"] = drift
    res.assumptions = list(assumptions) + ["small-scope: grammar shapes and input length are bounded"]
    if drift:
        res.notes.append("DRIFT property=%s %d cases where the tracer callback sequence differs from the machine's "
                         "(no property predicate falsified)" % (prop, drift))
    return res, runs, cases


def judge_long(res, prop, runs, ranges=True):
    """the inputs beyond the exhaustive bound (model-checked in lean mode): acceptance, consumed length and tree"""
    n = 0
    for r in runs:
        for c in r.real_only:
            c.fam = r.fam
            if c.exp is None or c.crashed:
                continue
            n += 1
            res.add(props.p_conforms(prop, c) or props.p_tree(prop, c, ranges=ranges))
    res.coverage["long_inputs_model_checked"] = n
    res.coverage["states"] = res.coverage.get("states", 0) + sum((r.tlc_lean or {}).get("distinct", 0) for r in runs)
    res.coverage["transitions"] = res.coverage.get("transitions", 0) + sum((r.tlc_lean or {}).get("states", 0) for r in runs)
    return n


def monitor(res, prop, kind, cases, tier, formula, what):
    """impl > spec: validate the recorded traces with TLC against a monitor specification"""
    # (the inputs of tens of kilobytes are judged by the predicates only: a trace of half a million events is not
    # what TLC's sequences are made for - 20 minutes for four of them)
    cases = [c for c in cases if len(c.inp) <= 20000]
    bad, ev, st = traces.validate_cases(kind, cases, os.path.join(vlib.WORK, tier, "traces"), prop)
    res.coverage["traces_validated_against_impl"] = res.coverage.get("traces_validated_against_impl", 0) + st["traces"]
    res.coverage.setdefault("monitors", {})[traces.MONITORS[kind]] = {
        "traces": st["traces"], "events": st["events"], "tlc_states": st["states"], "seconds": round(st["secs"], 1)}
    res.coverage["states"] = res.coverage.get("states", 0) + st["states"]
    res.coverage["transitions"] = res.coverage.get("transitions", 0) + max(0, st["states"] - 1)
    if bad is not None:
        res.add(Violation(prop, formula, "%s: the recorded trace is rejected by %s at event %s" % (
            what, traces.MONITORS[kind], ev), bad, {"rejected_event": ev}))
    return st


# ---------------------------------------------------------------------------------------------- C02
def check_C02(tier, seed, replay):
    res, runs, cases = generic(
        "C02", ["fields", "ws", "rand", "names", "big"], tier, seed, replay, [lambda p, c: None if c.crashed else props.p_tree(p, c)],
        "field-plumbing shapes (every depth-1 tree over field atoms, sampled deeper ones, hand-written shapes, "
        "override forms) x all inputs up to the bound; non-trivial = accepted input whose tree holds a match",
        lambda c: c.exp["ok"] and c.inp != [],
        require=("OptFail", "AltFail", "CloIter", "SeqNext", "AnyChar"),
        assumptions=["derive(Debug) rendering is the observation channel; position ranges masked (C09 owns them)"])
    return res


# ---------------------------------------------------------------------------------------------- C04
def p_boundaries(prop, c):
    if c.crashed:
        return Violation(prop, "NoPanic", "the generated parser did not return: %s" % c.crash_msg, c)
    b = set(traces.boundaries(c.text))
    a = c.act
    for f, ln, _ in a.get("advs", []):
        if f not in b or f + ln not in b:
            return Violation(prop, "OnBoundary", "cursor advance from %d by %d leaves the character boundaries" % (f, ln), c)
    # the traced entry point (parse_with_trace) is an entry point like any other: no panic there either
    for k in ("rec", "ind"):
        if a.get(k + "_same") is False and isinstance(a.get(k), dict) and "panic" in json.dumps(a.get(k)):
            return Violation(prop, "NoPanic", "the parser panics when it is traced: %s" % json.dumps(a.get(k))[:300], c)
    if not a["res"]["ok"] and a["res"]["errp"] not in b:
        return Violation(prop, "OnBoundary", "error position %d is not a character boundary" % a["res"]["errp"], c)
    if a["res"]["ok"]:
        for x, y in dbgparse.ranges_of(c.tree):
            if x not in b or y not in b or x > y:
                return Violation(prop, "OnBoundary", "position range %d..%d is not on character boundaries" % (x, y), c)
        for s_ in dbgparse.strings_of(c.tree):
            if s_ not in c.text:
                return Violation(prop, "Substring", "string %r in the tree is not a substring of the input" % s_, c)
    return None


def check_C04(tier, seed, replay):
    res, runs, cases = generic(
        "C04", ["uni", "randuni", "term"], tier, seed, replay, [p_boundaries, props.p_conforms],
        "literals / ranges / ci literals / classes / char / extern over {a, A, e-acute (C3 A9), U+9053 (E9 81 93), "
        "U+1F600} and code-point range end points x all inputs up to the bound plus seeded random Unicode strings; "
        "non-trivial = input containing a multi-byte character",
        lambda c: any(x > 127 for x in c.inp),
        require=("Lit", "Range", "AnyChar", "CallChar", "CallExtern"), indented=True,
        assumptions=["memory safety itself is not decidable by this technique: decided is the precondition of the "
                     "single unsafe operation (every advance on a boundary and in bounds, hook H1 asserts it)"])
    judge_long(res, "C04", runs)
    long_cases = [c for r in runs for c in r.real_only]
    for c in long_cases:
        res.add(p_boundaries("C04", c))
    monitor(res, "C04", "boundary", cases + long_cases, tier, "BoundaryMonitor", "an offset off a character boundary, or a panic")
    return res


# ---------------------------------------------------------------------------------------------- C05
def check_C05(tier, seed, replay):
    res, runs, cases = generic(
        "C05", ["memo", "randmemo"], tier, seed, replay,
        [lambda p, c: None if c.crashed else props.p_conforms(p, c), lambda p, c: None if c.crashed else props.p_tree(p, c, ranges=True)],
        "grammars with shared-prefix / nested / lookahead-reuse shapes x subsets of rules marked @memoize x all inputs "
        "up to the bound; non-trivial = a case of a variant with at least one memoized rule",
        lambda c: bool(c.g.meta.get("memo")), require=("MemoHit", "MemoMiss", "MemoStore"))
    # variant against variant on the real code
    judge_long(res, "C05", runs)
    long_cases = [c for r in runs for c in r.real_only]
    groups = {}
    for c in cases + long_cases:
        groups.setdefault((c.g.meta["base"], tuple(c.inp)), []).append(c)
    pairs = 0
    for key, cs in groups.items():
        ref = next((c for c in cs if not c.g.meta["memo"]), cs[0])
        for c in cs:
            if c is ref or ref.crashed:
                continue
            pairs += 1
            if c.crashed:
                res.add(Violation("C05", "MemoInvisible", "with @memoize on %s the parser does not return (%s); without it does" % (
                    c.g.meta["memo"], c.crash_msg), c))
                continue
            if c.ok != ref.ok:
                res.add(Violation("C05", "MemoInvisible", "acceptance differs between memo variants %s and %s" % (
                    ref.g.meta["memo"], c.g.meta["memo"]), c))
            elif c.ok and c.tree != ref.tree:
                res.add(Violation("C05", "MemoInvisible", "tree differs between memo variants %s and %s" % (
                    ref.g.meta["memo"], c.g.meta["memo"]), c))
    res.coverage["variant_pairs_compared"] = pairs
    res.coverage["long_inputs_real_only"] = len(long_cases)
    # every call starts from an empty cache: same results in another call order, and hits explained
    for r in runs:
        rev = rerun_reversed(r)
        for c in r.cases:
            o = rev.get((c.gid, tuple(c.inp)))
            if o is not None and o.get("res") != c.act.get("res"):
                res.add(Violation("C05", "FreshCache", "the result depends on the inputs parsed earlier in the process", c))
    monitor(res, "C05", "cache", cases + long_cases, tier, "FreshCache", "a cache hit that no entry of the current call explains")
    return res


def rerun_reversed(run):
    """the same cases in reverse order in a fresh process -> {(gid, inp): outcome}"""
    d = vlib.famdir(run.tlc and run.cdir and os.path.basename(os.path.dirname(run.cdir)), run.tier)
    cases = os.path.join(run.cdir, "cases.tsv")
    rev = os.path.join(d, "cases_rev.tsv")
    lines = open(cases).read().splitlines()
    with open(rev, "w") as f:
        f.write("\n".join(reversed(lines)) + "\n")
    binp = os.path.join(vlib.WORK, "target", "debug", "fam_%s_%s" % (os.path.basename(d), run.tier))
    outs = vlib.run_runner(binp, rev, os.path.join(d, "outcomes_rev.jsonl"))
    return {(o["g"], tuple(o["inp"])): o for o in outs if "inp" in o}


# ---------------------------------------------------------------------------------------------- C06
def p_packrat(prop, c):
    if c.crashed:
        return None
    meta = c.g.meta
    seen = {}
    for e in c.act.get("user", []):
        if e["ev"] == "ext":
            seen[(e["r"], e["p"])] = seen.get((e["r"], e["p"]), 0) + 1
    for r in meta.get("memo", []):
        fn = meta["probes"][r]["fn"]
        for (name, p_), n in seen.items():
            if name == fn and n > 1:
                return Violation(prop, "Packrat", "the body of memoized rule %s ran %d times at offset %d" % (r, n, p_), c,
                                 {"site": r})
    # a check function of a memoized rule belongs to the memoized body: at most one call per offset the rule is tried at
    for rule, fn in (meta.get("memo_checks") or {}).items():
        tried = {e["p"] for e in c.act.get("events", []) if e["ev"] == "enter" and e.get("r") == rule}
        calls = sum(1 for e in c.act.get("user", []) if e["ev"] == "chk" and e.get("r") == fn)
        if tried and calls > len(tried):
            return Violation(prop, "Packrat", "the check function of memoized rule %s ran %d times although the rule was tried at %d offset(s)" % (
                rule, calls, len(tried)), c, {"site": rule})
    if meta.get("all_memo"):
        nb = len(c.text.encode("utf-8"))
        total = sum(n for (name, _), n in seen.items() if name.startswith("ext_probe"))
        if total > meta["nrules"] * (nb + 1):
            return Violation(prop, "PackratBound", "%d body evaluations exceed rules x (length + 1) = %d" % (
                total, meta["nrules"] * (nb + 1)), c)
    return None


def check_C06(tier, seed, replay):
    res, runs, cases = generic(
        "C06", ["memo"], tier, seed, replay, [p_packrat],
        "memo family (a zero-length extern probe at the start of every memoizable body) x subsets of @memoize x all "
        "inputs up to the bound plus long nested inputs; non-trivial = some memoized rule is attempted twice at one "
        "offset (a cache hit happens in the model)",
        lambda c: any(h["ev"] == "info" and h["r"] == "hit" for h in c.exp.get("hist", [])),
        require=("MemoHit", "MemoMiss", "MemoStore", "CallExtern"))
    long_cases = [c for r in runs for c in r.real_only]
    for c in long_cases:
        c.fam = "memo"
        res.add(p_packrat("C06", c))
    memo_cases = [c for c in cases + long_cases if c.g.meta.get("memo") and not c.crashed]
    monitor(res, "C06", "packrat", memo_cases, tier, "Packrat", "a memoized body evaluated twice at one offset")
    failing = sum(1 for c in memo_cases if c.exp is not None and not c.exp["ok"]
                  and any(h["ev"] == "info" and h["r"] == "hit" for h in c.exp.get("hist", [])))
    res.coverage["long_inputs_real_only"] = len(long_cases)
    res.coverage["cases_with_hit_on_failing_parse"] = failing
    if not replay:
        # the cache protocol by itself (spec/MemoTable.tla): holds with the insert on every way out of the body,
        # and the protocol with an exit that skips the insert (the code before fix 79c8e9e) must be refuted
        m0 = tlc_simple("memotable_fixed", "MemoTable.tla", "MemoTable_fixed.cfg", tier, workers=2)
        if m0["rc"] != 0:
            raise ToolError("MemoTable (insert on every exit) violates Packrat / Transparent:\n%s" % (m0["violation"] or "")[:2000])
        m1 = tlc_simple("memotable_early", "MemoTable.tla", "MemoTable_early.cfg", tier, workers=2)
        if m1["rc"] == 0:
            raise ToolError("vacuity: TLC no longer refutes the cache protocol with an exit that skips the insert")
        res.coverage["memo_protocol_states"] = m0["distinct"]
        res.coverage["excluded_protocols_refuted_by_tlc"] = ["early_exit_without_insert"]
        if tier == "thorough":
            import re
            import subprocess
            try:
                p_ = subprocess.run(["tlapm", "--threads", "8", "--cleanfp", "-I", "..", "MemoTableProofs.tla"],
                                    cwd=os.path.join(vlib.SPEC, "proofs"), stdout=subprocess.PIPE, stderr=subprocess.STDOUT, text=True, timeout=900)
                m = re.search(r"All (\d+) obligations? proved", p_.stdout)
                res.coverage["tlaps_memo_table"] = ({"obligations": int(m.group(1)), "proved": int(m.group(1))} if m
                                                    else {"failed": p_.stdout[-400:]})
            except Exception as ex:  # noqa
                res.coverage["tlaps_memo_table"] = {"not_run": str(ex)[:200]}
    return res


# ---------------------------------------------------------------------------------------------- C07
def check_C07(tier, seed, replay):
    res, runs, cases = generic(
        "C07", ["lr"], tier, seed, replay,
        [props.p_crash, props.p_conforms, lambda p, c: props.p_tree(p, c, ranges=True)],
        "left-recursive shapes (direct, several operators, base first, wrapped, indirect, skipping, under a lookahead, "
        "@string, two levels, growth stopping midway, guarded base) x all inputs up to the bound; non-trivial = the "
        "growth loop extends the seed at least once",
        lambda c: sum(1 for h in c.exp.get("hist", []) if h["ev"] == "info" and h["r"] == "lrloop") >= 3,
        require=("LrHit", "LrSeed", "LrGrow", "LrStop"),
        assumptions=["termination on the real code is a per-case watchdog (20 s without progress)"])
    if not replay:
        # the arithmetic of the growth loop by itself (spec/LeftRecGrowth.tla), whatever the body answers: at most
        # N + 2 evaluations, the longest answer is returned; the loop with `>=` for `>` must be refuted
        l0 = tlc_simple("lrgrowth_strict", "LeftRecGrowth.tla", "LeftRecGrowth_strict.cfg", tier, workers=2)
        if l0["rc"] != 0:
            raise ToolError("LeftRecGrowth violates Bounded / Longest / Monotone:\n%s" % (l0["violation"] or "")[:2000])
        l1 = tlc_simple("lrgrowth_nonstrict", "LeftRecGrowth.tla", "LeftRecGrowth_nonstrict.cfg", tier, workers=2)
        if l1["rc"] == 0:
            raise ToolError("vacuity: TLC no longer refutes the growth loop that accepts a result of the same length")
        res.coverage["growth_loop_states"] = l0["distinct"]
        res.coverage["excluded_loops_refuted_by_tlc"] = ["accept_equal_length"]
        if tier == "thorough":
            import re
            import subprocess
            try:
                p_ = subprocess.run(["tlapm", "--threads", "8", "--cleanfp", "-I", "..", "LeftRecGrowthProofs.tla"],
                                    cwd=os.path.join(vlib.SPEC, "proofs"), stdout=subprocess.PIPE, stderr=subprocess.STDOUT, text=True, timeout=900)
                m = re.search(r"All (\d+) obligations? proved", p_.stdout)
                res.coverage["tlaps_growth_loop"] = ({"obligations": int(m.group(1)), "proved": int(m.group(1))} if m
                                                     else {"failed": p_.stdout[-400:]})
            except Exception as ex:  # noqa
                res.coverage["tlaps_growth_loop"] = {"not_run": str(ex)[:200]}
    return res


# ---------------------------------------------------------------------------------------------- C08
def check_C08(tier, seed, replay):
    res, runs, cases = generic(
        "C08", ["ws", "rand"], tier, seed, replay,
        [lambda p, c: None if c.crashed else props.p_conforms(p, c),
         lambda p, c: None if c.crashed else props.p_tree(p, c, ranges=True)],
        "skipping and non-skipping rules calling and including each other, @string / @char / char / explicit Whitespace "
        "calls, grammar-defined Whitespace (with comments; one that can fail) x all inputs over token characters, "
        "whitespace and near misses (\\x0B, \\x0C, \\t, \\r) up to the bound; non-trivial = input with a whitespace-like "
        "character",
        lambda c: any(x in (32, 9, 10, 11, 12, 13, 35, 46) for x in c.inp),
        require=("SkipWsBuiltin", "SkipWsUser", "WsUserOk", "WsUserFail", "IncEnter", "BuiltinWs"))
    judge_long(res, "C08", runs)
    return res


# ---------------------------------------------------------------------------------------------- C09
def p_ranges(prop, c):
    e = c.exp
    if c.crashed or not (c.ok and e["ok"]):
        return None
    a, x = c.tree, e["tree"]
    if dbgparse.strip_ranges(a) != dbgparse.strip_ranges(x):
        return None     # C02 / C08 own this
    if a != x:
        return Violation(prop, "RangesExact", "position ranges %s, expected %s" % (
            dbgparse.ranges_of(a), dbgparse.ranges_of(x)), c)
    obs = c.act.get("obs")
    if obs is not None:
        # PegPosition::position() of an enum override (generated glue): the matched variant's own range
        want = ";".join("%d..%d" % tuple(a[f]["0"]["position"]["$r"]) for f in ("o", "o2"))
        if obs != want:
            return Violation(prop, "RangesExact", "PegPosition::position() of the enum override gives %s, the matched variants' "
                             "ranges are %s" % (obs, want), c)
    return p_ranges_nest(prop, c)


def p_ranges_nest(prop, c):
    text = c.text.encode("utf-8")

    def walk(v, parent):
        """returns violation text or None; checks nesting and the @string slice"""
        if isinstance(v, dict):
            rng = None
            if "position" in v and isinstance(v["position"], dict) and "$r" in v["position"]:
                rng = tuple(v["position"]["$r"])
                if parent is not None and not (parent[0] <= rng[0] <= rng[1] <= parent[1]):
                    return "range %s outside its parent's %s" % (rng, parent)
                if "string" in v and isinstance(v["string"], dict) and "$s" in v["string"]:
                    s_ = "".join(map(chr, v["string"]["$s"])).encode("utf-8")
                    if text[rng[0]:rng[1]] != s_:
                        return "@string @position node: string %r is not the input sliced by %s" % (s_, rng)
            for k, x in v.items():
                if k != "position":
                    r = walk(x, rng or parent)
                    if r:
                        return r
        elif isinstance(v, list):
            last = None
            for x in v:
                r = walk(x, parent)
                if r:
                    return r
                rs = dbgparse.ranges_of(x)
                if rs:
                    if last is not None and rs[0][0] < last[1]:
                        return "successive matches overlap or are out of order: %s then %s" % (last, rs[0])
                    last = rs[0]
        return None

    r = walk(c.tree, None)
    if r:
        return Violation(prop, "RangesNest", r, c)
    return None


def judge_big_offsets(res, runs):
    """the synthetic input `a` x (2^32 + 5) followed by "bcdde": ranges and string behind an offset of more than 32 bits"""
    n = (1 << 32) + 5
    want = {"S": (0, n + 5), "T": (n, n + 2), "U": (n + 2, n + 4), "M": (n + 4, n + 5)}
    k = 0
    skipped = []
    for r in runs:
        for c in r.synthetic:
            k += 1
            c.fam = r.fam
            a = c.act
            ex = {"name": "offsets_beyond_32_bits", "site": "offsets-beyond-32-bits"}
            if "skipped" in a or a.get("crash") == "timeout":
                # the machine, not the parser: no address space for the input, or the run was cut by the driver's
                # clock.  Nothing was observed, so nothing is judged; the evidence says the case was not run.
                k -= 1
                skipped.append(a.get("skipped") or a.get("crash"))
                vlib.log("C09: the 4 GiB input was not run on this machine (%s)" % skipped[-1])
                continue
            if "crash" in a or not a.get("res", {}).get("ok"):
                res.add(Violation("C09", "RangesExact", "input of 2^32 + 10 bytes (an extern rule skips the first 2^32 + 5): not parsed: %s" % (
                    json.dumps(a.get("res", a.get("crash")))[:200]), None, ex))
                continue
            dbg = a["res"]["dbg"]
            import re
            got = {}
            for name, field in (("S", r"\}\), position: (\d+)\.\.(\d+) \}$"), ("T", r"t: T \{ position: (\d+)\.\.(\d+) \}"),
                                ("U", r"u: U \{ string: \"dd\", position: (\d+)\.\.(\d+) \}"), ("M", r"m: Some\(M \{ position: (\d+)\.\.(\d+) \}")):
                m = re.search(field, dbg)
                got[name] = (int(m.group(1)), int(m.group(2))) if m else None
            if got != want:
                res.add(Violation("C09", "RangesExact", "ranges behind an offset of more than 32 bits: got %s, expected %s (tree %s)" % (
                    got, want, dbg[:300]), None, ex))
            for key in ("rec_same", "ind_same", "again_same"):
                if a.get(key) is False:
                    res.add(Violation("C09", "RangesExact", "the parse of the 4 GiB input differs when repeated / traced (%s)" % key, None, ex))
    res.coverage["inputs_beyond_32_bit_offsets"] = k
    if skipped:
        res.coverage["inputs_beyond_32_bit_offsets_not_run"] = skipped


def check_C09(tier, seed, replay):
    res, runs, cases = generic(
        "C09", ["pos", "ws", "uni", "user", "rand", "randuni"], tier, seed, replay, [p_ranges],
        "every subset of @position marks on struct / @string / enum-override rules, memoized and left-recursive "
        "replays, multi-byte characters and whitespace at rule boundaries x all inputs up to the bound; non-trivial = "
        "accepted input whose tree carries at least two ranges",
        lambda c: c.exp["ok"] and len(dbgparse.ranges_of(c.exp["tree"])) >= 2,
        require=("SkipWsBuiltin", "MemoHit", "LrGrow"))
    if not replay:
        judge_big_offsets(res, runs)
    return res


# ---------------------------------------------------------------------------------------------- C10
def p_error(prop, c):
    e = c.exp
    if c.crashed or c.ok is not False:
        return None
    a = c.act["res"]
    errp = a["errp"]
    kind = props.real_kind(a["errk"])
    b = set(traces.boundaries(c.text))
    real = [(p_, props.real_kind(k)) for p_, k in c.act.get("fails", [])]
    real_att = [(p_, k) for p_, k in real if k != ("Sentinel",)]
    offs = {p_ for p_, _ in real_att}
    if errp not in b:
        return Violation(prop, "RealFailure", "reported position %d is not a character boundary of the input" % errp, c)
    if kind == ("Other",):
        return Violation(prop, "RealFailure", "the reported detail is the internal `Other`", c)
    lrfirst = c.g.meta.get("lrfirst", True)
    if kind == ("Sentinel",):
        if lrfirst:
            return Violation(prop, "NoSentinel", "the internal left-recursion sentinel is reported", c)
    else:
        if errp not in offs:
            return Violation(prop, "RealFailure", "no match attempt failed at the reported position %d (failures at %s)" % (
                errp, sorted(offs)), c)
        if kind not in {k for p_, k in real_att if p_ == errp}:
            return Violation(prop, "RealFailure", "the reported detail %s names no attempt that failed at %d" % (kind, errp), c)
    has_memo = any(r.kind == "rule" and (r.memoize or r.leftrec) for r in c.g.rules)
    if not has_memo and e["ok"] is False:
        # attempts that count: made outside lookaheads, or handed out by a positive lookahead that failed
        must = {x["p"] for x in e["att"] if x["la"] == 0} & offs
        spec_offs = {x["p"] for x in e["att"]}
        if must and errp < max(must):
            return Violation(prop, "FurthestFail", "reported position %d but an attempt that counts failed at %d" % (
                errp, max(must)), c)
        if must and errp > max(must) and offs <= spec_offs:
            return Violation(prop, "FurthestFail", "reported position %d is further than every attempt that counts (furthest: %d); it comes "
                             "from inside a lookahead that did not make the parse fail" % (errp, max(must)), c)
        if offs and errp > max(offs):
            return Violation(prop, "FurthestFail", "reported position %d is beyond every failed attempt" % errp, c)
    return None


def check_C10(tier, seed, replay):
    res, runs, cases = generic(
        "C10", ["ops", "fields", "memo", "lr", "user", "inc", "rand", "big"], tier, seed, replay, [p_error],
        "all failing inputs of the operator, memo, left-recursion and user-function families (every template's error "
        "bookkeeping: optional, closure end, failed alternative, lookaheads, @char classes, check failures, externs); "
        "non-trivial = failing parse with failed attempts at two or more distinct offsets",
        lambda c: (not c.exp["ok"]) and len({x["p"] for x in c.exp["att"]}) >= 2,
        require=("OptFail", "CloStop", "AltFail", "NegFail", "PosFail", "NegOk", "PosOk", "LrSeed", "MemoHit"),
        assumptions=["the set of attempts that really failed is recorded by hook H2 (ParseState::report_error); which of "
                     "them lie inside a lookahead is taken from the specification's run of the same case"])
    if tier == "thorough" and not replay:
        # optional strengthening: the lattice lemma behind FurthestFail, for unbounded histories (TLAPS)
        import re
        import subprocess
        try:
            p_ = subprocess.run(["tlapm", "--threads", "8", "--cleanfp", "ErrorRegister.tla"], cwd=os.path.join(vlib.SPEC, "proofs"),
                                stdout=subprocess.PIPE, stderr=subprocess.STDOUT, text=True, timeout=600)
            m = re.search(r"All (\d+) obligations? proved", p_.stdout)
            res.coverage["tlaps_error_register"] = ({"obligations": int(m.group(1)), "proved": int(m.group(1))} if m
                                                    else {"failed": p_.stdout[-400:]})
        except Exception as ex:  # noqa
            res.coverage["tlaps_error_register"] = {"not_run": str(ex)[:200]}
    return res


# ---------------------------------------------------------------------------------------------- C13
def check_C13(tier, seed, replay):
    res, runs, cases = generic(
        "C13", ["inc"], tier, seed, replay,
        [lambda p, c: None if c.crashed else props.p_conforms(p, c),
         lambda p, c: None if c.crashed else props.p_tree(p, c, ranges=True)],
        "includes inside optionals, closures, choices, lookaheads, other included bodies and override rules, in "
        "skipping and non-skipping includers, included rules carrying directives; each grammar next to its inlined "
        "twin x all inputs up to the bound; non-trivial = non-empty input",
        lambda c: c.inp != [], require=("IncEnter",))
    by = {}
    for c in cases:
        by[(c.gid, tuple(c.inp))] = c
    twins = 0
    for c in cases:
        if c.g.meta.get("twin") != "inlined":
            continue
        o = by.get((c.g.meta["twin_of"], tuple(c.inp)))
        if o is None or c.crashed or o.crashed:
            continue
        twins += 1
        ra, rb = o.act["res"], c.act["res"]
        if ra.get("ok") != rb.get("ok"):
            res.add(Violation("C13", "IncludeInline", "the grammar and its inlined twin disagree on acceptance", o))
        elif ra.get("ok") and o.tree != c.tree:
            res.add(Violation("C13", "IncludeInline", "the grammar and its inlined twin return different trees", o))
        elif not ra.get("ok") and ra.get("errp") != rb.get("errp"):
            res.add(Violation("C13", "IncludeInline", "error position %s with the include, %s with the body in place" % (
                ra.get("errp"), rb.get("errp")), o))
    # same public types: the declarations the generator emits for the two twins
    for r in runs:
        out = gen_out_dir(r)
        for g in r.grammars:
            if g.meta.get("twin") == "inlined":
                ta, tb = public_types(out, g.meta["twin_of"]), public_types(out, g.id)
                if ta is None or tb is None:
                    raise ToolError("generated code of %s not found" % g.id)
                # rules that are only included are still declared in both twins; S is what changes
                if ta != tb:
                    res.add(Violation("C13", "IncludeTypes", "public type declarations differ between the twins", None,
                                      {"name": g.meta["shape"], "with_include": ta[:2000], "inlined": tb[:2000]}))
    res.coverage["twin_pairs_compared"] = twins
    return res


def gen_out_dir(run):
    """OUT_DIR of the family crate (where build.rs wrote the generated modules)"""
    import glob
    name = "fam_%s_%s" % (os.path.basename(os.path.dirname(run.cdir)), run.tier)
    cands = glob.glob(os.path.join(vlib.WORK, "target", "debug", "build", name + "-*", "out"))
    if not cands:
        raise ToolError("OUT_DIR of %s not found" % name)
    return max(cands, key=os.path.getmtime)


def public_types(out, gid):
    p_ = os.path.join(out, gid + ".rs")
    if not os.path.exists(p_):
        return None
    t = open(p_).read()
    i = t.find("mod peginator_generated")
    return t[:i] if i >= 0 else t


# ---------------------------------------------------------------------------------------------- C14
def p_user_calls(prop, c):
    if c.crashed:
        return None
    exp_ext = {(h["p"]) for h in c.exp.get("hist", []) if h["ev"] == "ext"}
    text = c.text
    nb = len(text.encode("utf-8"))
    for e in c.act.get("user", []):
        if e["ev"] == "ext":
            if not (0 <= e["p"] <= nb) or e["p"] not in set(traces.boundaries(text)):
                return Violation(prop, "CheckExtern", "an extern function was given something that is not a suffix of the input", c)
            if e["p"] not in exp_ext:
                return Violation(prop, "CheckExtern", "extern function %s was called at offset %d where the specification makes no such call" % (
                    e["r"], e["p"]), c)
    return None


def p_user_context(prop, c):
    """with a user context type configured every check / extern call receives the context"""
    if c.crashed or c.g.meta.get("ctx") is None:
        return None
    want = sum(1 for h in c.exp.get("hist", []) if h["ev"] in ("ext", "chk"))
    got = c.act.get("ctx_calls")
    logged = sum(1 for e in c.act.get("user", []) if e["ev"] in ("ext", "chk"))
    if got is None or got != logged:
        return Violation(prop, "UserContext", "%s user-function calls were made but the context object saw %s of them" % (logged, got), c)
    if got != want:
        # (the number of calls itself is the specification's prediction: strict, hence only reported when the
        # outcome predicates above already passed and the counts disagree between context and log)
        return None
    return None


def check_C14(tier, seed, replay):
    res, runs, cases = generic(
        "C14", ["user", "userctx", "rand"], tier, seed, replay,
        [lambda p, c: None if c.crashed else props.p_conforms(p, c),
         lambda p, c: None if c.crashed else props.p_tree(p, c, ranges=True), p_user_calls, p_user_context],
        "extern rules (String / &str / char results, zero-length, failing) inside sequences, closures, choices, "
        "lookaheads and memoized rules; checks on @string, struct, enum, @position and @char rules x all inputs up to the "
        "bound; non-trivial = some user function is called",
        lambda c: any(h["ev"] in ("ext", "chk") for h in c.exp.get("hist", [])),
        require=("CallExtern", "RuleBody", "CallChar"),
        assumptions=["user functions are the mirrored library of spec/PegValues.tla (harness/common/src/oracles.rs)"])
    return res


# ---------------------------------------------------------------------------------------------- C19
def p_tracing(prop, c):
    if c.crashed:
        return Violation(prop, "TraceInert", "the parser did not return under tracing: %s" % c.crash_msg, c)
    a = c.act
    if not a.get("rec_same"):
        return Violation(prop, "TraceInert", "the result with a tracer differs from the plain result: %s" % json.dumps(a.get("rec"))[:300], c)
    if a.get("ind_same") is False:
        return Violation(prop, "TraceInert", "parse_with_trace differs from parse: %s" % json.dumps(a.get("ind"))[:300], c)
    d = 0
    for e in a.get("events", []):
        if e["ev"] == "enter":
            d += 1
        elif e["ev"] == "exit":
            d -= 1
            if d < 0:
                return Violation(prop, "Balanced", "an exit is reported without a matching entry (indentation underflow)", c)
    if d != 0:
        return Violation(prop, "Balanced", "%d rule entries are never exited" % d, c)
    return None


def check_C19(tier, seed, replay):
    res, runs, cases = generic(
        "C19", ["ops", "memo", "lr", "user", "uni", "rand", "names", "big"], tier, seed, replay, [p_tracing],
        "operator, memo (cache hits), left-recursion (re-evaluation) and user-function (failing checks, externs) "
        "families x all inputs up to the bound, each parsed plainly, with a recording ParseTracer and with the "
        "library's IndentedTracer; non-trivial = at least two rule entries",
        lambda c: sum(1 for h in c.exp.get("hist", []) if h["ev"] == "enter") >= 2,
        require=("MemoHit", "LrHit", "LrGrow", "RuleExit"), indented=True)
    long_cases = [c for r in runs for c in r.real_only]
    for c in long_cases:
        c.fam = next(r.fam for r in runs if c in r.real_only)
        res.add(p_tracing("C19", c))
    res.coverage["long_inputs_real_only"] = len(long_cases)
    monitor(res, "C19", "nesting", cases + long_cases, tier, "NestingMonitor", "unbalanced tracer callbacks or a result changed by tracing")
    cli_trace_inert(res, tier, seed, replay)
    return res


def cli_trace_inert(res, tier, seed, replay):
    """the compiler's own front end (the bootstrapped parser of grammar.ebnf: the largest grammar there is, deeply
    nested inputs) traced through `peginator-cli --trace`: everything from the header line on, the exit status
    and the error message must be those of the untraced run"""
    import random
    from concurrent.futures import ThreadPoolExecutor
    cli = cli_bin()
    d = vlib.famdir("clitrace", tier)
    os.makedirs(d, exist_ok=True)
    texts = []
    for root, dn, fn in os.walk(vlib.REPO):
        dn[:] = [x for x in dn if x not in ("target", ".git")]
        for f_ in sorted(fn):
            if f_.endswith(".ebnf"):
                texts.append((os.path.relpath(os.path.join(root, f_), vlib.REPO).replace("/", "_"), open(os.path.join(root, f_), newline="").read()))
    texts.sort()
    rnd = random.Random(seed * 977 + 19)
    base = list(texts)
    for i in range(12 if tier == "quick" else 120):        # texts that are rejected, at varying depth
        nm, t = rnd.choice(base)
        cut = rnd.randint(0, len(t))
        texts.append(("cut%03d_%s" % (i, nm), t[:cut] + rnd.choice(["", "(", "@", "'", " ;", "\u00e9"]) + (t[cut + rnd.randint(0, 3):] if rnd.random() < 0.5 else "")))
    for n in (70, 200):
        texts.append(("nested_%d" % n, "@export\nS = " + "(" * n + "'a' [x:S]" + ")" * n + ";\n"))
    if replay:
        nm = json.load(open(replay)).get("name")
        texts = [t for t in texts if t[0] == nm]

    def one(item):
        nm, t = item
        pth = os.path.join(d, nm + ".ebnf")
        with open(pth, "w", newline="") as f:
            f.write(t)
        # stderr on a terminal, stdout redirected: the usual way to look at a trace while keeping the code
        return run_door_tty([cli, pth], timeout=60), run_door_tty([cli, "--trace", pth], timeout=120)

    with ThreadPoolExecutor(max_workers=vlib.NCPU) as ex:
        outs = list(ex.map(one, texts))
    ntr = 0
    for (nm, t), (plain, traced) in zip(texts, outs):
        ex_ = {"name": nm, "site": "cli-trace:" + nm.split("_")[0], "grammar": t[:2000]}
        if door_failure(plain):
            continue        # (C15's business: the untraced compiler does not answer)
        fail = door_failure(traced)
        if fail:
            res.add(Violation("C19", "TraceInert", "peginator-cli --trace %s on %s although the untraced run answers (exit %s)" % (fail, nm, plain["code"]),
                              None, ex_))
            continue
        if plain["code"] != traced["code"]:
            res.add(Violation("C19", "TraceInert", "peginator-cli exits with %s, with --trace with %s (%s)" % (plain["code"], traced["code"], nm), None, ex_))
            continue
        if plain["code"] == 0:
            # (the log goes to stderr today; were it printed to stdout it would come before the code)
            if not traced["out"].endswith(plain["out"]):
                res.add(Violation("C19", "TraceInert", "the code printed by peginator-cli --trace differs from the untraced output (%s)" % nm, None, ex_))
            elif len(traced["out"]) > len(plain["out"]) or traced["err"]:
                ntr += 1
        else:
            lp, lt = plain["out"].strip().splitlines()[-6:], traced["out"].strip().splitlines()[-6:]
            # the error report is the last block of the output in both runs
            k = len(plain["out"].strip().splitlines())
            if traced["out"].strip().splitlines()[-k:] != plain["out"].strip().splitlines():
                res.add(Violation("C19", "TraceInert", "the error reported by peginator-cli --trace differs from the untraced one (%s): %r vs %r" % (
                    nm, lt[-2:], lp[-2:]), None, ex_))
            elif traced["err"] or len(traced["out"]) > len(plain["out"]):
                ntr += 1
    if not replay and ntr < len(texts) // 2:
        raise ToolError("vacuity guard: peginator-cli --trace produced a log for only %d of %d texts" % (ntr, len(texts)))
    res.coverage["cli_trace_runs"] = len(texts)
    res.coverage["cli_trace_with_log"] = ntr
    res.coverage["evaluations"] = res.coverage.get("evaluations", 0) + 2 * len(texts)



# ---------------------------------------------------------------------------------------------- tools
def tools_bin(name):
    """build harness/tools against /repo's current tree -> path of the binary"""
    import subprocess
    cd = vlib.harness_crate("tools")
    p_ = subprocess.run(["cargo", "build", "--offline", "--bin", name], cwd=cd, env=vlib.cargo_env(),
                        stdout=subprocess.PIPE, stderr=subprocess.PIPE, text=True)
    if p_.returncode != 0:
        raise ToolError("building harness tool %s failed:\n%s" % (name, p_.stderr[-3000:]))
    return os.path.join(vlib.WORK, "target", "debug", name)


def tlc_simple(name, module, cfg, tier, env=None, workers=None, timeout=3600):
    """run a self-contained spec, cached on the tool hash -> parsed output"""
    d = vlib.famdir(name, tier)
    import hashlib
    envh = hashlib.sha256()
    for k_, v_ in sorted((env or {}).items()):
        envh.update(k_.encode())
        envh.update(open(v_, "rb").read() if os.path.exists(v_) else v_.encode())
    key = "tlc:%s:%s:%s" % (vlib.tool_hash(), cfg, envh.hexdigest()[:16])
    out = os.path.join(d, "tlc.out")
    pj = out + ".json"
    if vlib.cached(d, "tlc", key) and os.path.exists(pj):
        return json.load(open(pj))
    rc, secs = vlib.run_tlc(module, cfg, out, env=env, workers=workers, timeout=timeout, extra=("-coverage", "1"))
    r = vlib.parse_tlc_output(out)
    r["rc"], r["secs"] = rc, secs
    log("TLC %s %s: rc=%d %d states, %d outputs in %.0fs" % (module, cfg, rc, r["distinct"], len(r["prints"]), secs))
    if rc == -9:
        raise ToolError("TLC timed out on %s" % module)
    if rc != 0 and r["violation"] is None:
        raise ToolError("TLC failed on %s (rc=%d), see %s" % (module, rc, out))
    json.dump(r, open(pj, "w"))
    if rc == 0:
        vlib.mark(d, "tlc", key)
    return r


# ---------------------------------------------------------------------------------------------- C11
ANSI = None


def strip_ansi(s_):
    global ANSI
    import re
    if ANSI is None:
        ANSI = re.compile(r"\x1b\[[0-9;]*m")
    return ANSI.sub("", s_)


def parse_pretty(disp, file):
    """-> (line, col, echoed line with its gutter, index of the caret in the caret line) from the Display output.
    Only what C11 promises is looked for - two numbers, the printed line, a caret - not the cosmetics around
    them (arrows, gutter characters, wording)."""
    import re
    ls = disp.split("\n")
    ci = None
    for i in range(len(ls) - 1, 0, -1):
        if ls[i].count("^") == 1 and not re.search(r"[A-Za-z0-9]", ls[i]):
            ci = i
            break
    if ci is None:
        raise ValueError("no caret line")
    nums = None
    for i in range(ci - 2, -1, -1):
        l_ = ls[i].replace(file, "") if file else ls[i]
        m = re.findall(r"\d+", l_)
        if len(m) >= 2:
            nums = (int(m[-2]), int(m[-1]))
            break
    if nums is None:
        raise ValueError("no line / column numbers before the printed line")
    return nums[0], nums[1], ls[ci - 1], ls[ci].index("^")


def check_C11(tier, seed, replay):
    import subprocess
    res = Result()
    t = tlc_simple("pretty", "PrettyError.tla", "PrettyError_%s.cfg" % tier, tier)
    if t["rc"] != 0:
        raise ToolError("PrettyError: the scanner machine contradicts the property's definition:\n%s" % (t["violation"] or "")[:2000])
    exp = t["prints"]
    if replay:
        rp = json.load(open(replay))
        exp = [e for e in exp if e["text"] == rp["case"]["text"] and e["pos"] == rp["case"]["pos"]]
    # long random texts beyond the enumerated bound: expectations computed by the definition itself
    import random
    rnd = random.Random(seed * 31 + 11)
    extra = []
    if not replay:
        for _ in range(200 if tier == "quick" else 5000):
            n = rnd.randint(5, 60)
            cps = [rnd.choice([97, 98, 32, 10, 10, 13, 233, 36947, 128512, 9, 11, 12, 0, 127, 0x85, 0x2028, 0x301]) for _ in range(n)]
            k = rnd.randint(0, n)
            txt = "".join(map(chr, cps))
            pos = len(txt[:k].encode("utf-8"))
            before = txt[:k]
            lstart = before.rfind("\n") + 1
            lend = txt.find("\n", k)
            lend = len(txt) if lend < 0 else lend
            extra.append({"text": cps, "pos": pos, "line": before.count("\n") + 1, "col": k - lstart + 1,
                          "linetext": [ord(c) for c in txt[lstart:lend]], "random": True})
            if k != lstart:      # the same line at its first column: where the printed line starts under the gutter
                extra.append({"text": cps, "pos": len(txt[:lstart].encode("utf-8")), "line": before.count("\n") + 1, "col": 1,
                              "linetext": [ord(c) for c in txt[lstart:lend]], "random": True})
    # many lines: counters of lines, bytes or characters that are narrower than they look (255 / 256 / 65535 / 65536)
    if not replay:
        def at(txt, k):
            before = txt[:k]
            lstart = before.rfind("\n") + 1
            lend = txt.find("\n", k)
            lend = len(txt) if lend < 0 else lend
            return {"text": [ord(c) for c in txt], "pos": len(before.encode("utf-8")), "line": before.count("\n") + 1, "col": k - lstart + 1,
                    "linetext": [ord(c) for c in txt[lstart:lend]], "random": True}
        longs = []
        for n in (254, 255, 256, 257, 511, 512, 513, 1000):
            longs.append("\n" * n + "ab")
            longs.append("x\n" * n + "\u00e9b")
        for seq_ in ("\n\x0b", "\x0b\n", "\n\x0c", "\r\n", "\n\r", "\n\x00", "\x7f\n", "\n\u0085", "\u2028\n", "\n\t"):
            for off in range(8):
                longs.append("a" * off + seq_ * 3 + "bc" + seq_ + "d\u00e9")       # control characters next to newlines, at every alignment
        for n in (255, 256, 257, 300):
            longs.append("a" * n + "\u00e9b\ncd")            # a long line
            longs.append("\u9053" * n + "b")
        longs.append("y" * 66000 + "\u00e9z\nab")            # columns beyond 65535
        if tier != "quick":
            longs += ["\n" * 65536 + "ab", "y" * 65536 + "\nab", "z\n" * 70000 + "q"]
        for txt in longs:
            for k in sorted({0, len(txt), len(txt) - 1, len(txt) - 2, len(txt) // 2, 256, 257, min(len(txt), 300), 65534, 65535, 65536, 66001}):
                if 0 <= k <= len(txt):
                    extra.append(at(txt, k))
                    extra.append(at(txt, txt[:k].rfind("\n") + 1))     # the same line at its first column
    d = vlib.famdir("pretty", tier)
    cases = []
    for e in exp + extra:
        for file in (None, "dir/g.ebnf"):
            cases.append((e, file))
    cf = os.path.join(d, "cases.tsv")
    with open(cf, "w") as f:
        for e, file in cases:
            f.write("%s\t%d\t%s\n" % ("".join(map(chr, e["text"])).encode("utf-8").hex(), e["pos"], file or "-"))
    binp = tools_bin("pretty")
    of = os.path.join(d, "out.jsonl")
    p_ = subprocess.run([binp, cf, of], stdout=subprocess.PIPE, stderr=subprocess.PIPE, text=True, timeout=3600)
    if p_.returncode != 0:
        raise ToolError("pretty runner failed: rc=%d %s" % (p_.returncode, p_.stderr[-500:]))
    outs = [json.loads(l) for l in open(of)]
    nontriv = 0
    # where the printed line starts (gutter width): the caret of the same line's first column, per rendering
    base = {}
    for (e, file), o in zip(cases, outs):
        if e["col"] == 1:
            for mode in ("plain", "colored"):
                if "display" in o[mode]:
                    try:
                        base[(tuple(e["text"]), e["line"], file, mode)] = parse_pretty(strip_ansi(o[mode]["display"]), file)[3]
                    except ValueError:
                        pass
    for (e, file), o in zip(cases, outs):
        text = "".join(map(chr, e["text"]))
        ident = {"case": {"text": e["text"], "pos": e["pos"], "file": file}}
        site = "empty-text" if not e["text"] else ("line-start" if e["col"] == 1 and e["line"] > 1 else
                                                   "line-end" if e["pos"] == len(text.encode()) or text.encode()[e["pos"]:e["pos"] + 1] == b"\n" else "inside")
        if e["line"] > 1 or any(c > 127 for c in e["text"]):
            nontriv += 1
        for mode in ("plain", "colored"):
            r = o[mode]
            if "panic" in r:
                res.add(Violation("C11", "NoPanic", "from_parse_error panics (%s) on text %r position %d" % (
                    r["panic"], text, e["pos"]), None, dict(ident, site=site, name=mode)))
                continue
            try:
                line, col, echoed, caret = parse_pretty(strip_ansi(r["display"]), file)
            except ValueError as ex:
                res.add(Violation("C11", "Shape", "unexpected Display output (%s): %r" % (ex, r["display"]), None,
                                  dict(ident, site=site, name=mode)))
                continue
            want_line = "".join(map(chr, e["linetext"])).rstrip()
            b0 = base.get((tuple(e["text"]), e["line"], file, mode))
            if b0 is None:
                res.add(Violation("C11", "Shape", "no rendering of the first column of line %d of text %r to compare with" % (e["line"], text), None,
                                  dict(ident, site=site, name=mode)))
                continue
            echoed = echoed[b0:]
            caret = caret - b0 + 1
            if (line, col) != (e["line"], e["col"]):
                res.add(Violation("C11", "LineCol", "text %r position %d: reported line %d column %d, expected line %d column %d" % (
                    text, e["pos"], line, col, e["line"], e["col"]), None, dict(ident, site=site, name=mode)))
            elif echoed.rstrip() != want_line:
                res.add(Violation("C11", "LineText", "text %r position %d: printed line %r, expected %r" % (
                    text, e["pos"], echoed, want_line), None, dict(ident, site=site, name=mode)))
            elif caret != e["col"]:
                res.add(Violation("C11", "Caret", "text %r position %d: caret under column %d, expected %d" % (
                    text, e["pos"], caret, e["col"]), None, dict(ident, site=site, name=mode)))
    res.coverage = {
        "states": t["distinct"], "transitions": t["states"], "traces_validated_against_impl": len(cases),
        "evaluations": len(cases) * 2, "distinct_nontrivial": nontriv,
        "rule": "every text over {a, space, newline, carriage return, e-acute, U+9053} up to the length bound x every boundary position "
                "0..=len (enumerated by TLC, expectation from the scanner machine) plus seeded random long texts; each "
                "with and without a file name, colours off and on; non-trivial = position beyond the first line or a "
                "multi-byte text",
        "exhaustive": True,
        "samples": [{"text": "".join(map(chr, e["text"])), "pos": e["pos"], "expected": [e["line"], e["col"]],
                     "display": o["plain"]} for (e, f_), o in list(zip(cases, outs))[5:400:150]],
    }
    res.assumptions = ["the echoed line is compared modulo trailing whitespace, which the renderer trims"]
    return res



# ---------------------------------------------------------------------------------------------- C18
def hist_line(h):
    out = []
    for st in h:
        if st["a"] == "init":
            out.append("i:" + st["g"] + ("" if st.get("d", "absent") == "absent" else ":" + st["d"]))
        elif st["a"] == "edit":
            out.append("e:" + st["g"])
        elif st["a"] == "prefix":
            out.append("p:" + "".join(st["p"]))
        elif st["a"] == "delete":
            out.append("d")
        else:
            out.append("r")
    return ";".join(out)


PREFIX_TEXT = {"": "", "p": "// p", "pq": "// p q", "u": "use  std::fmt::Debug  as  _;"}


def check_C18(tier, seed, replay):
    import subprocess
    res = Result()
    sfx = "" if tier == "quick" else "_thorough"
    # 1. the protocol as the property states it: TLC checks Fresh / Untouched / FailSafe on all histories
    ti = tlc_simple("bs_intended", "BuildScript.tla", "BuildScript_intended%s.cfg" % sfx, tier)
    if ti["rc"] != 0:
        raise ToolError("BuildScript (intended protocol) violates its own property:\n%s" % (ti["violation"] or "")[:2000])
    # 2. the protocol as implemented (run_on_single_file line by line): deviates from the property only in the
    #    two known ways; emits every history for replay
    runs_ = []
    for name, cfg in (("bs_impl", "BuildScript_impl%s.cfg" % sfx), ("bs_impl_fmt", "BuildScript_impl_fmt%s.cfg" % sfx)):
        t = tlc_simple(name, "BuildScript.tla", cfg, tier)
        if t["rc"] != 0:
            raise ToolError("BuildScript (as implemented) deviates from the property beyond the known findings:\n%s" % (
                t["violation"] or "")[:2000])
        runs_.append(t)
    # 3. TLC must still *find* the known design flaw in the implementation-shaped model (the binding is live)
    tv = tlc_simple("bs_violation", "BuildScript.tla", "BuildScript_violation.cfg", tier)
    model_finds = tv["rc"] != 0
    hists = []
    for t in runs_:
        for o in t["prints"]:
            if any(st["a"] == "run" for st in o["h"]):
                hists.append((o["format"], hist_line(o["h"])))
    if replay:
        rp = json.load(open(replay))
        hists = [(rp["format"], rp["history"])]
    # steps after the last run change nothing observable; a history that is a prefix of another one is
    # replayed as part of it (predicates are evaluated after every run)
    trunc = set()
    for fmt, hl in hists:
        st = hl.split(";")
        while st and st[-1] != "r":
            st.pop()
        trunc.add((fmt, ";".join(st)))
    allh = sorted(trunc)
    keep = []
    for i, (fmt, hl) in enumerate(allh):
        nxt = allh[i + 1] if i + 1 < len(allh) else None
        if nxt is not None and nxt[0] == fmt and nxt[1].startswith(hl + ";"):
            continue
        keep.append((fmt, hl))
    hists = keep if not replay else hists
    # "+wide": the same histories with the prefixes spelled in multi-byte characters
    # "+crlf": the two valid grammars differ in nothing but their line endings, one of which lies inside a literal
    # "+dots": the grammar file is called gram.mar.v2.ebnf (and has a sibling gram.ebnf in directory mode)
    # "+oldsrc": every edited grammar arrives with a modification time older than the destination's
    # "+ws": the grammar texts differ in nothing but the white space after the last token (a final comment with and
    #         without its newline - without it the text is no grammar -, trailing blank lines)
    modes = ["file", "dest", "dir", "file+wide", "dirlink", "file+crlf", "file+dots", "dir+dots", "file+oldsrc", "file+ws", "dir+ws"]
    d = vlib.famdir("buildscript", tier)
    cf = os.path.join(d, "histories.tsv")
    lines = []
    for fmt, hl in hists:
        for m in (modes if not replay else [json.load(open(replay)).get("mode", "file")]):
            if m == "file+wide" and "p:" not in hl:
                continue
            if m == "file+crlf" and ("e:g" not in hl or hl.count("r") < 2 or "p:" in hl):
                continue
            if m.endswith("+dots") and (hl.count("r") < 2 or "p:" in hl):
                continue
            if m.endswith("+ws") and ("e:" not in hl or hl.count("r") < 2 or "p:" in hl):
                continue
            if m == "file+oldsrc" and ("e:" not in hl or hl.count("r") < 2 or "p:" in hl):
                continue
            if m == "dirlink" and ("p:" in hl or hl.count("r") < 2):
                continue      # (the symbolic-link variant: histories with two or more runs, default prefix)
            if m in ("dir", "dirlink", "dir+dots", "dir+ws") and ("e:missing" in hl or "i:missing" in hl):
                continue      # in directory mode a missing grammar file is simply not visited
            if fmt and not m.startswith("file"):
                continue      # formatting is orthogonal to where the destination is
            lines.append((m, fmt, hl))
    binp = tools_bin("buildscript")
    t0 = time.time()
    nchunk = min(vlib.NCPU, max(1, len(lines) // 50))
    procs = []
    for k in range(nchunk):
        part = lines[k::nchunk]
        with open("%s.%d" % (cf, k), "w") as f:
            for m, fmt, hl in part:
                f.write("%s\t%d\t%s\n" % (m, 1 if fmt else 0, hl))
        procs.append(subprocess.Popen([binp, "%s.%d" % (cf, k), os.path.join(d, "out.%d.jsonl" % k),
                                       os.path.join(d, "scratch%d" % k)], stdout=subprocess.PIPE, stderr=subprocess.PIPE, text=True))
    for k, p_ in enumerate(procs):
        _, err = p_.communicate(timeout=7200)
        if p_.returncode != 0:
            raise ToolError("buildscript replayer failed rc=%d: %s" % (p_.returncode, err[-1000:]))
    log("buildscript replay: %d histories in %.0fs" % (len(lines), time.time() - t0))
    outs = [None] * len(lines)
    for k in range(nchunk):
        for j, l in enumerate(open(os.path.join(d, "out.%d.jsonl" % k))):
            outs[k + j * nchunk] = json.loads(l)
    steps = 0
    nontriv = 0
    for (m, fmt, hl), o in zip(lines, outs):
        if hl.count("r") >= 2:
            nontriv += 1
        for r in o["runs"]:
            steps += 1
            ex = {"history": hl, "mode": m, "format": fmt, "run_step": r["i"], "observed": r}
            pt, dpt = PREFIX_TEXT[r["prefix"]], PREFIX_TEXT[r["dest_prefix"]]
            if r["panic"]:
                res.add(Violation("C18", "NoPanic", "Compile::run panicked in history %s" % hl, None, dict(ex, site="panic")))
            if r["ok"] and not r["valid"]:
                res.add(Violation("C18", "FailSafe", "run returned Ok on an unreadable or invalid grammar (%s) in history %s" % (
                    r["src"], hl), None, dict(ex, site="ok-on-invalid")))
            if r["ok"] and r["valid"] and not r["fresh"]:
                site = "stale-prefix-shrink" if (dpt != pt and dpt.startswith(pt)) else "other"
                res.add(Violation("C18", "Fresh", "after a successful run the destination is not the compilation of the "
                                  "current grammar and prefix (history %s, mode %s)" % (hl, m), None, dict(ex, site=site)))
            if r["was_current"] and r["touched"]:
                site = "rustfmt-unstable-prefix" if (fmt and r["prefix"] == "u") else "other"
                res.add(Violation("C18", "Untouched", "a destination that was already current was rewritten (history %s, "
                                  "mode %s)" % (hl, m), None, dict(ex, site=site)))
            if not r["ok"] and not r["same"]:
                res.add(Violation("C18", "FailSafe", "a failing run changed the destination (history %s, mode %s)" % (hl, m),
                                  None, dict(ex, site="changed-on-error")))
            if not r["ok"] and r["valid"] and not r["panic"]:
                res.add(Violation("C18", "Fresh", "run failed on a valid grammar (history %s, mode %s)" % (hl, m), None,
                                  dict(ex, site="err-on-valid")))
    # 4. directory mode with two grammar files (BuildScriptDir.tla): every history, any listing order
    td = tlc_simple("bs_dir", "BuildScriptDir.tla", "BuildScriptDir%s.cfg" % sfx, tier)
    if td["rc"] != 0:
        raise ToolError("BuildScriptDir violates its own property:\n%s" % (td["violation"] or "")[:2000])
    dh = set()
    for o in td["prints"]:
        st_ = []
        for x in o["h"]:
            st_.append("e:%s:%s" % (x["f"], x["g"]) if x["a"] == "edit" else "d:%s" % x["f"] if x["a"] == "delete" else "r")
        while st_ and st_[-1] != "r":
            st_.pop()
        if st_:
            dh.add(";".join(st_))
    dh = sorted(dh)
    dh = [x for i_, x in enumerate(dh) if not (i_ + 1 < len(dh) and dh[i_ + 1].startswith(x + ";"))]
    if replay:
        dh = [json.load(open(replay))["history"]] if json.load(open(replay)).get("mode") == "dir2" else []
    if dh:
        df = os.path.join(d, "dir2.tsv")
        with open(df, "w") as f:
            for x in dh:
                f.write("dir2\t0\t%s\n" % x)
        do = os.path.join(d, "dir2.jsonl")
        p2 = subprocess.run([binp, df, do, os.path.join(d, "scratch_dir2")], stdout=subprocess.PIPE, stderr=subprocess.PIPE, text=True, timeout=3600)
        if p2.returncode != 0:
            raise ToolError("buildscript replayer (directory mode) failed: %s" % p2.stderr[-800:])
        for hl, l_ in zip(dh, open(do)):
            o = json.loads(l_)
            for r in o["runs"]:
                steps += 1
                ex = {"history": hl, "mode": "dir2", "format": False, "run_step": r["i"], "observed": r}
                anybad = any(not f_["valid"] for f_ in r["files"].values())
                if r["panic"]:
                    res.add(Violation("C18", "NoPanic", "Compile::directory panicked in history %s" % hl, None, dict(ex, site="panic")))
                elif r["ok"] and anybad:
                    res.add(Violation("C18", "FailSafe", "Compile::directory returned Ok although a grammar of the directory is invalid "
                                      "(history %s)" % hl, None, dict(ex, site="dir-ok-on-invalid")))
                elif not r["ok"] and not anybad:
                    res.add(Violation("C18", "Fresh", "Compile::directory failed although every grammar is valid (history %s)" % hl, None,
                                      dict(ex, site="dir-err-on-valid")))
                elif r["ok"]:
                    for fn_, f_ in r["files"].items():
                        if not f_["fresh"]:
                            res.add(Violation("C18", "Fresh", "after a successful directory run %s.rs is not the compilation of %s.ebnf "
                                              "(history %s)" % (fn_, fn_, hl), None, dict(ex, site="dir-stale")))
                else:
                    for fn_, f_ in r["files"].items():
                        if not f_["valid"] and not f_["same"]:
                            res.add(Violation("C18", "FailSafe", "a failing directory run changed the destination of the invalid grammar %s "
                                              "(history %s)" % (fn_, hl), None, dict(ex, site="dir-changed-on-error")))
    res.coverage = {
        "states": ti["distinct"] + td["distinct"] + sum(t["distinct"] for t in runs_),
        "transitions": ti["states"] + td["states"] + sum(t["states"] for t in runs_),
        "directory_mode_histories": len(dh),
        "traces_validated_against_impl": len(lines) + len(dh), "evaluations": steps, "distinct_nontrivial": nontriv,
        "rule": "every history of {edit grammar (2 valid, syntactically invalid, semantically invalid, missing), change "
                "prefix (empty, p, pq with p a proper prefix of pq, a rustfmt-unstable one), delete destination, run} up to "
                "the depth bound, enumerated by TLC and replayed against the real Compile in file / explicit-destination / "
                "directory mode, formatting off and on; non-trivial = history with at least two runs",
        "exhaustive": True, "model_finds_known_flaw": model_finds,
        "samples": [{"history": hl, "mode": m, "format": fmt, "runs": o["runs"]} for (m, fmt, hl), o in
                    list(zip(lines, outs))[7::max(1, len(lines) // 3)][:3]],
    }
    if not model_finds:
        raise ToolError("vacuity: TLC no longer finds the stale-destination flaw in the implementation-shaped model")
    if tier == "thorough" and not replay:
        # the intended protocol satisfies Fresh / FailSafe / Untouched for histories of ANY length (TLAPS, the very
        # definitions TLC checks up to the depth bound: module BuildProtocol)
        import re
        try:
            p_ = subprocess.run(["tlapm", "--threads", "8", "--cleanfp", "-I", "..", "BuildProtocolProofs.tla"],
                                cwd=os.path.join(vlib.SPEC, "proofs"), stdout=subprocess.PIPE, stderr=subprocess.STDOUT, text=True, timeout=1200)
            m = re.search(r"All (\d+) obligations? proved", p_.stdout)
            res.coverage["tlaps_build_protocol"] = ({"obligations": int(m.group(1)), "proved": int(m.group(1)),
                                                    "theorems": ["FreshAlways", "FailSafeAlways", "UntouchedAlways"]} if m
                                                   else {"failed": p_.stdout[-400:]})
        except (OSError, subprocess.TimeoutExpired) as ex:
            res.coverage["tlaps_build_protocol"] = {"failed": str(ex)}
    res.assumptions = ["the expected bytes are header + prefix + code compiled afresh through the library (and rustfmt)",
                       "directory mode is replayed with one grammar file; the model is the single-file protocol"]
    return res



# ---------------------------------------------------------------------------------------------- C15
def cli_bin():
    import subprocess
    e = vlib.cargo_env()
    e["CARGO_TARGET_DIR"] = os.path.join(vlib.WORK, "target_cli")
    p_ = subprocess.run(["cargo", "build", "--offline", "-p", "peginator-cli", "--manifest-path",
                         os.path.join(vlib.REPO, "Cargo.toml")], env=e, stdout=subprocess.PIPE, stderr=subprocess.PIPE, text=True)
    if p_.returncode != 0:
        raise ToolError("building peginator-cli failed:\n%s" % p_.stderr[-3000:])
    return os.path.join(vlib.WORK, "target_cli", "debug", "peginator-cli")


def run_door(cmd, timeout=20, extra_env=None):
    """-> dict(status: 'exit'|'signal'|'timeout', code, out, err)"""
    import subprocess
    env = dict(os.environ)
    env["RUST_BACKTRACE"] = "0"
    env.pop("VERIF_CTX", None)
    env.pop("VERIF_CTX_ORDER", None)
    if extra_env:
        env.update(extra_env)
    try:
        p_ = subprocess.run(cmd, stdout=subprocess.PIPE, stderr=subprocess.PIPE, timeout=timeout, env=env)
    except subprocess.TimeoutExpired:
        return {"status": "timeout", "code": None, "out": "", "err": ""}
    out = p_.stdout.decode("utf-8", "replace")
    err = p_.stderr.decode("utf-8", "replace")
    if p_.returncode < 0:
        return {"status": "signal", "code": -p_.returncode, "out": out[:300], "err": err[:300]}
    return {"status": "exit", "code": p_.returncode, "out": out, "err": err[:400]}


def run_door_tty(cmd, timeout=120):
    """like run_door, with stderr on a pseudo-terminal (what a person at a shell has when only stdout is redirected)"""
    import pty
    import subprocess
    import threading
    env = dict(os.environ)
    env["RUST_BACKTRACE"] = "0"
    for k in ("NO_COLOR", "CLICOLOR", "CLICOLOR_FORCE", "VERIF_CTX", "VERIF_CTX_ORDER"):
        env.pop(k, None)
    try:
        master, slave = pty.openpty()
    except OSError:
        return run_door(cmd, timeout=timeout)       # no pseudo-terminals here: stderr on a pipe
    buf = []

    def drain():
        try:
            while True:
                d_ = os.read(master, 65536)
                if not d_:
                    break
                if sum(len(x) for x in buf) < 4000:
                    buf.append(d_)
        except OSError:
            pass
    try:
        p_ = subprocess.Popen(cmd, stdout=subprocess.PIPE, stderr=slave, stdin=subprocess.DEVNULL, env=env)
    finally:
        os.close(slave)
    t_ = threading.Thread(target=drain, daemon=True)
    t_.start()
    try:
        out, _ = p_.communicate(timeout=timeout)
    except subprocess.TimeoutExpired:
        p_.kill()
        p_.communicate()
        os.close(master)
        return {"status": "timeout", "code": None, "out": "", "err": ""}
    t_.join(timeout=2)
    try:
        os.close(master)
    except OSError:
        pass
    out = out.decode("utf-8", "replace")
    err = b"".join(buf).decode("utf-8", "replace")
    if p_.returncode < 0:
        return {"status": "signal", "code": -p_.returncode, "out": out[:300], "err": err[:300]}
    return {"status": "exit", "code": p_.returncode, "out": out, "err": err[:400]}


def door_failure(r):
    """did the process fail to answer? -> description or None"""
    if r["status"] == "timeout":
        return "hangs (no answer within the time limit)"
    if r["status"] == "signal":
        return "is killed by signal %d (stack overflow / abort)" % r["code"]
    if r["code"] == 101 and "panicked" in r["err"]:
        return "panics: %s" % " ".join(r["err"].strip().split("\n")[:2])[:200]
    return None


def deep_texts():
    out = []
    for n in (50, 300, 1500, 6000):
        out.append(("nested_parens_%d" % n, "@export\nS = " + "(" * n + "'a'" + ")" * n + ";\n"))
        out.append(("nested_optionals_%d" % n, "@export\nS = " + "[" * n + "'a'" + "]" * n + ";\n"))
        out.append(("nested_lookaheads_%d" % n, "@export\nS = " + "!" * n + "'a';\n"))
        out.append(("long_sequence_%d" % n, "@export\nS = " + "'a' " * n + ";\n"))
        out.append(("long_choice_%d" % n, "@export\nS = " + " | ".join(["'a'"] * n) + ";\n"))
        out.append(("many_rules_%d" % n, "@export\nS = R0;\n" + "".join("R%d = 'a';\n" % i for i in range(n))))
    return out


def check_C15(tier, seed, replay):
    import random
    import subprocess
    from concurrent.futures import ThreadPoolExecutor
    import peg
    import families
    res = Result()
    gs = families.family("bad", tier, seed)
    d = vlib.famdir("bad", tier)
    cdir = os.path.join(d, "corpus")
    os.makedirs(cdir, exist_ok=True)
    json.dump(peg.corpus_json(gs), open(os.path.join(cdir, "corpus.json"), "w"))
    t = tlc_simple("bad", "CompileFront.tla", "CompileFront.cfg", tier, env={"CORPUS": os.path.join(cdir, "corpus.json")})
    if t["rc"] != 0:
        raise ToolError("CompileFront: the specification's verdict disagrees with the corpus generator:\n%s" % (t["violation"] or "")[:2000])
    verdict = {o["g"]: o for o in t["prints"]}
    front = tools_bin("front")
    cli = cli_bin()
    cases = []   # (name, text, derives, expect, answer_only)
    for g in gs:
        cases.append((g.id, g.meta["shape"], peg.grammar_text(g), g.meta.get("derives_list"), verdict[g.id]["verdict"],
                      bool(g.meta.get("answer_only"))))
    # totality on arbitrary strings: mutated valid grammars, truncations, deep nestings
    rnd = random.Random(seed * 131 + 15)
    seeds_txt = [open(os.path.join(vlib.REPO, "grammar.ebnf")).read()]
    for root, dn, fn in os.walk(os.path.join(vlib.REPO, "test", "src")):
        for f_ in sorted(fn):
            if f_.endswith("ebnf"):
                seeds_txt.append(open(os.path.join(root, f_)).read())
    seeds_txt += [peg.grammar_text(g) for g in gs[::7]]
    nmut = 150 if tier == "quick" else 4000
    junk = ["(", ")", "[", "]", "{", "}", "!", "&", "|", ";", "=", ":", "@", "*", ">", "'", '"', "\\", "\\u{", "..", "$",
            "i'", "é", "\U0001F600", "\x00", "@char", "@extern(", "@check(", "+", " ", "\n", "#"]
    robust = []
    for i in range(nmut):
        txt = rnd.choice(seeds_txt)
        k = rnd.random()
        if k < 0.3:
            cut = rnd.randint(0, len(txt))
            m = txt[:cut]
        else:
            cs = list(txt)
            for _ in range(rnd.randint(1, 4)):
                pos = rnd.randint(0, len(cs))
                op = rnd.random()
                if op < 0.4 and cs:
                    del cs[min(pos, len(cs) - 1)]
                elif op < 0.8:
                    cs.insert(pos, rnd.choice(junk))
                elif cs:
                    q = min(pos, len(cs) - 1)
                    cs[q] = rnd.choice(junk)
            m = "".join(cs)
        robust.append(("mutated_%04d" % i, m))
    robust += deep_texts() if tier != "quick" else [x for x in deep_texts() if not x[0].endswith("6000")]
    if replay:
        rp = json.load(open(replay))
        cases = [c for c in cases if c[1] == rp.get("name")]
        robust = [r for r in robust if r[0] == rp.get("name")]
    tdir = os.path.join(d, "texts")
    os.makedirs(tdir, exist_ok=True)

    def run_case(item):
        gid, name, text, derives, expect, answer_only = item
        pth = os.path.join(tdir, gid + ".ebnf")
        with open(pth, "w") as f:
            f.write(text)
        dv = "-" if derives is None else ",".join(derives)
        out = {}
        out["lib"] = run_door([front, "lib", pth, dv])
        dest = os.path.join(tdir, gid + ".dest.rs")
        if os.path.exists(dest):
            os.remove(dest)
        out["compile"] = run_door([front, "compile", pth, dv, dest])
        # the same request again, with whatever the first run left at the destination
        out["compile_again"] = run_door([front, "compile", pth, dv, dest])
        if os.path.exists(dest):
            os.remove(dest)
        out["compile_exit"] = run_door([front, "compile_exit", pth, dv, dest])
        cmd = [cli]
        for x in (derives or []):
            cmd += ["-d", x]
        out["cli"] = run_door(cmd + [pth])
        return out

    def run_robust(item):
        name, text = item
        pth = os.path.join(tdir, name + ".ebnf")
        with open(pth, "w", encoding="utf-8", errors="surrogatepass") as f:
            f.write(text)
        return {"lib": run_door([front, "lib", pth, "-"]), "cli": run_door([cli, pth])}

    # directory mode: one invalid grammar among valid ones, at every position of the listing and nested
    good = "@export\nS = 'a' [x:B];\nB = 'b';\n"
    bads = [("syntax", "@export\nS = 'a' (;\n"), ("restriction", "@export\nS = !(x:B) 'a';\nB = 'b';\n")]
    dir_cases = []
    for bn, btxt in bads:
        for pos in range(3):
            for nested in (False, True):
                dname = os.path.join(tdir, "dir_%s_%d_%s" % (bn, pos, "nested" if nested else "flat"))
                import shutil
                shutil.rmtree(dname, ignore_errors=True)
                os.makedirs(os.path.join(dname, "sub") if nested else dname)
                for i, nm in enumerate(("a", "b", "c")):
                    base = os.path.join(dname, "sub") if (nested and i == pos) else dname
                    with open(os.path.join(base, nm + ".ebnf"), "w") as f:
                        f.write(btxt if i == pos else good)
                dir_cases.append(("dir_%s_pos%d_%s" % (bn, pos, "nested" if nested else "flat"), dname, "error"))
    # ... and behind a symbolic link (a directory link, a file link)
    for bn, btxt in bads:
        import shutil
        dname = os.path.join(tdir, "dir_%s_symlinked_dir" % bn)
        shutil.rmtree(dname, ignore_errors=True)
        shutil.rmtree(dname + "_target", ignore_errors=True)
        os.makedirs(dname)
        os.makedirs(dname + "_target")
        open(os.path.join(dname, "a.ebnf"), "w").write(good)
        open(os.path.join(dname + "_target", "b.ebnf"), "w").write(btxt)
        os.symlink(dname + "_target", os.path.join(dname, "sub"))
        dir_cases.append(("dir_%s_symlinked_dir" % bn, dname, "error"))
        dname = os.path.join(tdir, "dir_%s_symlinked_file" % bn)
        shutil.rmtree(dname, ignore_errors=True)
        os.makedirs(dname)
        open(os.path.join(dname, "a.ebnf"), "w").write(good)
        open(os.path.join(tdir, "dir_%s_linked_source.txt" % bn), "w").write(btxt)
        os.symlink(os.path.join(tdir, "dir_%s_linked_source.txt" % bn), os.path.join(dname, "b.ebnf"))
        dir_cases.append(("dir_%s_symlinked_file" % bn, dname, "error"))
    dname = os.path.join(tdir, "dir_allgood")
    os.makedirs(dname, exist_ok=True)
    for nm in ("a", "b"):
        open(os.path.join(dname, nm + ".ebnf"), "w").write(good)
    dir_cases.append(("dir_all_valid", dname, "code"))
    if replay:
        dir_cases = [c for c in dir_cases if c[0] == (json.load(open(replay)).get("name") or "").replace("_again", "")]
    with ThreadPoolExecutor(max_workers=vlib.NCPU) as ex:
        outs = list(ex.map(run_case, cases))
        routs = list(ex.map(run_robust, robust))
        douts = list(ex.map(lambda c: run_door([front, "compiledir", c[1]]), dir_cases))
        # and once more over whatever the first run left next to the grammars
        douts2 = list(ex.map(lambda c: run_door([front, "compiledir", c[1]]), dir_cases))
    dir_cases = dir_cases + [(n + "_again", dn, e) for n, dn, e in dir_cases]
    douts = douts + douts2
    for (name, dname, expect), r in zip(dir_cases, douts):
        fail = door_failure(r)
        if fail:
            res.add(Violation("C15", "Answers", "Compile::directory %s on %s" % (fail, name), None, {"name": name, "site": "compiledir:" + name}))
            continue
        got = "code" if r["out"].startswith("ok") else "error"
        if got != expect:
            res.add(Violation("C15", "Verdict", "Compile::directory answers %s for %s although %s" % (
                "Ok" if got == "code" else "Err", name, "one grammar of the directory is invalid" if expect == "error" else "all grammars are valid"),
                None, {"name": name, "site": "compiledir:" + name, "observed": r}))
    # the same grammars through the library in ONE process, rejected ones first and last: what a process answered
    # before must not change an answer (a long-lived build script, a language server)
    if not replay:
        def seq_run(order):
            argv = [front, "libseq"]
            for k_ in order:
                gid, name, text, derives, expect, answer_only = cases[k_]
                argv += [os.path.join(tdir, gid + ".ebnf"), "-" if derives is None else (",".join(derives) or "-")]
            r_ = run_door(argv, timeout=600)
            if door_failure(r_) or r_["code"] != 0:
                res.add(Violation("C15", "Answers", "compiling %d grammars in one process %s" % (len(order), door_failure(r_) or "fails"), None,
                                  {"name": "libseq", "site": "libseq"}))
                return None
            return r_["out"].split("\n")
        idx = [k_ for k_ in range(len(cases)) if cases[k_][3] != []]      # (the empty derive set cannot be written on this command line)
        bad_first = sorted(idx, key=lambda k_: (outs[k_]["lib"]["out"].startswith("code"), k_))
        for label, order in (("rejected grammars first", bad_first), ("in corpus order, twice", idx + idx)):
            lines_ = seq_run(order)
            if lines_ is None:
                continue
            for k_, ln_ in zip(order, lines_):
                fresh = "code" if outs[k_]["lib"]["out"].startswith("code") else "error"
                got_ = ln_.split(" ")[0]
                if got_ != fresh:
                    res.add(Violation("C15", "Verdict", "the library answers %s for grammar %s after other grammars were compiled in the same process "
                                      "(%s); a fresh process answers %s" % (got_, cases[k_][1], label, fresh), None,
                                      {"name": cases[k_][1], "site": "libseq:" + cases[k_][1], "grammar": cases[k_][2]}))
                    break
    nontriv = 0
    for (gid, name, text, derives, expect, answer_only), o in zip(cases, outs):
        if expect == "error":
            nontriv += 1
        for door in ("lib", "compile", "compile_again", "compile_exit", "cli"):
            if door == "cli" and derives == []:
                continue        # the command line cannot express the empty derive set
            r = o[door]
            extra = {"name": name, "door": door, "grammar": text, "expected": expect, "observed": r}
            fail = door_failure(r)
            if fail:
                res.add(Violation("C15", "Answers", "%s door %s on grammar %s" % (door, fail, name), None,
                                  dict(extra, site="%s:%s" % (door, name.split("_")[0] + "_" + "_".join(name.split("_")[1:3])))))
                continue
            if door == "lib":
                got = "code" if r["out"].startswith("code") else "error" if r["out"].startswith("error") else "?"
            elif door in ("compile", "compile_again"):
                got = "code" if r["out"].startswith("ok") else "error" if r["out"].startswith("err") else "?"
            elif door == "compile_exit":
                got = "code" if (r["code"] == 0 and r["out"].startswith("ok")) else "error" if r["code"] != 0 else "?"
            else:
                got = "code" if r["code"] == 0 else "error"
            if got == "?":
                raise ToolError("front tool (%s, %s) printed %r / %r" % (door, name, r, text[:300]))
            if answer_only:
                continue
            if got != expect:
                if door == "cli" and expect == "error" and r["code"] == 0:
                    what = "peginator-cli exits with status 0 although the grammar is rejected (the failure is invisible to the caller)"
                    site = "cli-exit-status"
                else:
                    what = "%s door answers %s for grammar %s, the documented restrictions say %s (%s)" % (
                        door, got, name, expect, verdict[gid]["violated"])
                    site = "%s:%s" % (door, name)
                res.add(Violation("C15", "Verdict", what, None, dict(extra, site=site)))
    for (name, text), o in zip(robust, routs):
        for door in ("lib", "cli"):
            fail = door_failure(o[door])
            if fail:
                kind = name.rsplit("_", 1)[0] if not name.startswith("mutated") else "mutated"
                res.add(Violation("C15", "Answers", "%s door %s on text %s" % (door, fail, name), None,
                                  {"name": name, "door": door, "grammar": text[:2000], "observed": o[door],
                                   "site": "%s:%s" % (door, kind if kind != "mutated" else name)}))
    res.coverage = {
        "states": t["distinct"], "transitions": max(t["states"], 1), "traces_validated_against_impl": len(cases) * 5 + len(robust) * 2 + len(dir_cases),
        "evaluations": len(cases) * 5 + len(robust) * 2 + len(dir_cases), "distinct_nontrivial": nontriv,
        "rule": "per documented restriction: violating grammars in varied contexts and nearest valid neighbours, include "
                "graphs on three rules, identifier spellings, derive sets (verdict by CompileFront.tla) through the "
                "library, Compile::run, Compile::run_exit_on_error (exit status) and peginator-cli, each case in its own process; plus seeded mutations / truncations "
                "of valid grammars and deep nestings (totality only); non-trivial = grammar the specification rejects",
        "exhaustive": False,
        "samples": [{"grammar": c[1], "expected": c[4], "lib": o["lib"]["out"][:80], "cli_exit": o["cli"]["code"]}
                    for c, o in list(zip(cases, outs))[3::max(1, len(cases) // 3)][:3]],
    }
    res.assumptions = ["8 MB default main-thread stack, 20 s per process"]
    return res



# ---------------------------------------------------------------------------------------------- C20
def audit_shared_state():
    """structural audit backing the specification's no-shared-variable assumption (reported, not a verdict)"""
    import re
    pat = re.compile(r"\b(static\s+(mut\s+)?[A-Z_]+\s*:|thread_local!|lazy_static!|OnceCell|OnceLock|Mutex<|RwLock<|Atomic[A-Z])")
    hits = []
    rt = os.path.join(vlib.REPO, "runtime", "src")
    for f in sorted(os.listdir(rt)):
        if f.endswith(".rs") and f != "verif.rs":
            for i, line in enumerate(open(os.path.join(rt, f)), 1):
                if pat.search(line) and not line.strip().startswith("//"):
                    hits.append("runtime/src/%s:%d: %s" % (f, i, line.strip()[:100]))
    return hits


def check_C20(tier, seed, replay):
    import subprocess
    res = Result()
    # 1. the design: per-call state; TLC explores all interleavings; the excluded designs must be refuted
    sfx = "" if tier == "quick" else "_thorough"
    t0 = tlc_simple("session_per_call", "Session.tla", "Session_per_call%s.cfg" % sfx, tier)
    if t0["rc"] != 0:
        raise ToolError("Session (per-call state) violates SessionPure:\n%s" % (t0["violation"] or "")[:2000])
    refuted = []
    for dsg in ("per_thread", "shared"):
        tv = tlc_simple("session_" + dsg, "Session.tla", "Session_%s.cfg" % dsg, tier)
        refuted.append(tv["rc"] != 0)
    if not all(refuted):
        raise ToolError("vacuity: TLC no longer refutes the per-thread / shared cache designs")
    # 2. the real code: concurrent parses against a sequential run
    nthreads, rounds = (8, 4) if tier == "quick" else (16, 40)
    fams = ["memo", "lr", "ops", "ws", "uni"]
    runs, cov = machine_runs("C20", fams, tier, seed, replay)
    total = 0
    thread_cases = []
    cases_all = []
    for r in runs:
        cases_all += r.cases
        name = os.path.basename(os.path.dirname(r.cdir))
        binp = os.path.join(vlib.WORK, "target", "debug", "fam_%s_%s" % (name, r.tier))
        of = os.path.join(vlib.famdir(name, r.tier), "threads.jsonl")
        # (without the inputs of tens of kilobytes: their place is the sequential run)
        tcases = os.path.join(vlib.famdir(name, r.tier), "cases_threads.tsv")
        with open(tcases, "w") as f_:
            tl = [l_ for l_ in open(os.path.join(r.cdir, "cases.tsv")) if len(l_) < 40000 and "\t@" not in l_]
            if len(tl) > 60000:
                tl = tl[::len(tl) // 60000 + 1]      # (threads x rounds x cases parses: an even sample of the largest families)
            f_.write("".join(tl))
        p_ = subprocess.run([binp, tcases, of, "0", "--threads", str(nthreads), "--rounds", str(rounds)],
                            stdout=subprocess.PIPE, stderr=subprocess.PIPE, text=True, timeout=3600)
        if p_.returncode != 0:
            # a crash under concurrency that does not happen sequentially is a violation of the property
            res.add(Violation("C20", "SessionPure", "the concurrent run of family %s died (rc=%s) although the sequential run completes: %s" % (
                r.fam, p_.returncode, p_.stderr[-300:]), None, {"name": r.fam, "site": "crash"}))
            continue
        lines = open(of).read().splitlines()
        summ = json.loads(lines[0])
        total += summ["parses"]
        lines_cases = open(tcases).read().splitlines()
        key_to_case = {(c.gid, tuple(c.inp)): c for c in r.cases + r.real_only}
        for m in summ["mismatches"]:
            gid, hx = lines_cases[m["case"]].split("\t")
            c = key_to_case.get((gid, tuple(ord(x) for x in bytes.fromhex(hx).decode("utf-8"))))
            res.add(Violation("C20", "SessionPure", "thread %d got a different outcome than the sequential run: %s vs %s" % (
                m["thread"], json.dumps(m["par"].get("res"))[:200], json.dumps(m["seq"].get("res"))[:200]), c,
                {"name": r.fam, "thread": m["thread"]}))
        # stress phase: only the inputs beyond the model-checking bound (long whitespace runs, long memo inputs),
        # many rounds, so that threads are inside the same runtime helpers at the same time
        hot = [l_ for l_ in lines_cases if len(l_.split("\t")[1]) >= 16]
        if hot:
            hf = os.path.join(vlib.famdir(name, r.tier), "stress.tsv")
            with open(hf, "w") as f:
                f.write("\n".join(hot) + "\n")
            ho = os.path.join(vlib.famdir(name, r.tier), "stress.jsonl")
            hr = max(50, (60000 if tier == "quick" else 600000) // len(hot))
            p2 = subprocess.run([binp, hf, ho, "0", "--threads", str(nthreads), "--rounds", str(hr)],
                                stdout=subprocess.PIPE, stderr=subprocess.PIPE, text=True, timeout=3600)
            if p2.returncode != 0:
                res.add(Violation("C20", "SessionPure", "the concurrent stress run of family %s died (rc=%s): %s" % (
                    r.fam, p2.returncode, p2.stderr[-300:]), None, {"name": r.fam, "site": "crash"}))
            else:
                hs = json.loads(open(ho).readline())
                total += hs["parses"]
                for m in hs["mismatches"]:
                    gid, hx = hot[m["case"]].split("\t")
                    c = key_to_case.get((gid, tuple(ord(x) for x in bytes.fromhex(hx).decode("utf-8"))))
                    res.add(Violation("C20", "SessionPure", "thread %d got a different outcome than the sequential run (stress phase): %s vs %s" % (
                        m["thread"], json.dumps(m["par"].get("res"))[:200], json.dumps(m["seq"].get("res"))[:200]), c,
                        {"name": r.fam, "thread": m["thread"]}))
        # per-thread traces of the first round, in the thread's own order
        for l in lines[1:]:
            o = json.loads(l)
            gid, hx = lines_cases[o["case"]].split("\t")
            c = key_to_case.get((gid, tuple(ord(x) for x in bytes.fromhex(hx).decode("utf-8"))))
            if c is not None:
                tc = props.Case(r.fam, c.g, c.inp, c.exp, o["outcome"])
                thread_cases.append(tc)
    for c in cases_all:
        if not c.crashed and not c.act.get("again_same", True):
            res.add(Violation("C20", "SessionPure", "parsing the same input again gives a different result", c))
        elif c.crashed:
            res.add(Violation("C20", "SessionPure", "a parse in a session of many does not return (%s) although grammar and input determine "
                              "a result" % c.crash_msg, c))
        elif not c.crashed:
            # every case is one parse in a long session on one thread (out of one reused buffer): its result must be
            # the one the specification determines from grammar and input alone
            v = props.p_conforms("C20", c) or props.p_tree("C20", c, ranges=True)
            if v is not None:
                v.formula = "SessionPure"
                v.what = "a parse in a session of many gives another result than grammar and input determine: " + v.what
                res.add(v)
    nt = sum(1 for c in cases_all if any(r_.kind == "rule" and (r_.memoize or r_.leftrec) for r_ in c.g.rules))
    res.coverage = base_coverage(runs, cov, cases_all, nt,
                                 "memo, left-recursion and operator families x all inputs up to the bound, parsed sequentially (twice "
                                 "each, and in two orders) and concurrently from %d threads x %d rounds, each thread walking the cases "
                                 "in its own order; non-trivial = grammar with a memoized or left-recursive rule" % (nthreads, rounds),
                                 0)
    res.coverage["states"] += t0["distinct"]
    res.coverage["transitions"] += t0["states"]
    res.coverage["concurrent_parses"] = total
    res.coverage["threads"] = nthreads
    res.coverage["excluded_designs_refuted_by_tlc"] = ["per_thread", "shared"]
    res.coverage["shared_state_audit"] = audit_shared_state() or "no static / thread_local / interior-mutable global in runtime/src (hook file excluded)"
    if thread_cases:
        monitor(res, "C20", "cache", thread_cases, tier, "FreshCache", "a cache hit in a thread's parse that no entry of the same call explains")
    if tier == "thorough" and not replay:
        # optional strengthening: SessionPure and FreshCache of the per-call design for any number of threads,
        # inputs, keys and calls (TLAPS, inductive invariant in spec/proofs/SessionProofs.tla)
        import re
        try:
            p_ = subprocess.run(["tlapm", "--threads", "8", "--cleanfp", "-I", "..", "SessionProofs.tla"],
                                cwd=os.path.join(vlib.SPEC, "proofs"), stdout=subprocess.PIPE, stderr=subprocess.STDOUT, text=True, timeout=900)
            m = re.search(r"All (\d+) obligations? proved", p_.stdout)
            res.coverage["tlaps_session"] = ({"obligations": int(m.group(1)), "proved": int(m.group(1))} if m
                                             else {"failed": p_.stdout[-400:]})
        except Exception as ex:  # noqa
            res.coverage["tlaps_session"] = {"not_run": str(ex)[:200]}
    res.assumptions = ["TLC enumerates the interleavings of the model; real thread schedules are sampled, not enumerated",
                       "outcome = result, tracer callbacks and recorded cursor advances, compared as a whole"]
    res.level = "model_checking"
    return res



# ---------------------------------------------------------------------------------------------- C16
def split_header(text):
    """-> (header present?, rest): the header is the block of `//` comment lines at the very top of every
    generated file, ended by an empty line (its wording - version, build time, checksum - is not part of any
    property and is not looked at)"""
    pos = 0
    n = 0
    while text.startswith("//", pos):
        k = text.find("\n", pos)
        if k < 0:
            return False, text
        pos = k + 1
        n += 1
    if n == 0 or not (text.startswith("\n", pos) or pos == len(text)):
        return False, text
    return True, text[pos:]


def check_C16(tier, seed, replay):
    import hashlib
    import shutil
    import zlib
    from concurrent.futures import ThreadPoolExecutor
    import peg
    res = Result()
    res.level = "other"
    # behaviour through the macro route (peginate!) against the library route, same grammars
    runs, cov = machine_runs("C16", ["routes"], tier, seed, replay) if False else (None, None)
    cdir, gs = vlib.build_corpus("routes", tier, seed)
    real = vlib.harness_outcomes("routes", tier, seed, cdir, extra_deps='peginator_macro = { path = "@REPO@/macro" }')
    if not real["build_ok"]:
        res.add(Violation("C16", "MacroRoute", "the parsers expanded by peginate! (or generated by the library) for the route "
                          "grammars do not compile: %s" % real["build_err"][-1500:], None, {"site": "macro-build"}))
    nmacro = 0
    for o in real["outcomes"]:
        if "macro_same" in o:
            nmacro += 1
            if not o["macro_same"]:
                res.add(Violation("C16", "MacroRoute", "the parser expanded by peginate! behaves differently from the library-generated one on "
                                  "grammar %s input %r" % (o["g"], "".join(map(chr, o["inp"]))), None,
                                  {"name": o["g"], "input": "".join(map(chr, o["inp"])), "site": "macro-behaviour"}))
    front = tools_bin("front")
    cli = cli_bin()
    d = vlib.famdir("routes", tier)
    tdir = os.path.join(d, "texts")
    os.makedirs(tdir, exist_ok=True)
    k = 3 if tier == "quick" else 12
    settings = [("default", None), ("full", ["Debug", "Clone", "PartialEq", "Eq"]), ("clone", ["Clone"]),
                ("dups", ["Debug", "Clone", "Clone", "Debug"]), ("paths", ["Clone", "std::fmt::Debug", "core::cmp::PartialEq"]),
                ("ctx", ["Debug", "Clone"]),          # with a user context type (library and build script only)
                ("ctxpath", ["Debug", "Clone"])]      # ... given as a longer path with a keyword segment
    prefixes = ["", "use std::fmt::Debug as _;", "// p\n// q"]
    jobs = []
    for g in gs:
        text = peg.grammar_text(g)
        pth = os.path.join(tdir, g.id + ".ebnf")
        open(pth, "w").write(text)
        for sname, dv in settings:
            dvs = "-" if dv is None else ",".join(dv)
            for proc in range(k):
                cenv = ({"VERIF_CTX": "crate::TheContext" if sname == "ctx" else "super::ctx::r#type::deep_module::The_Context2",
                         "VERIF_CTX_ORDER": "first" if proc % 2 == 0 else "last"} if sname in ("ctx", "ctxpath") else None)
                jobs.append(("lib", g.id, sname, proc, [front, "lib", pth, dvs, os.path.join(tdir, "%s.%s.lib%d.rs" % (g.id, sname, proc))], None, text, cenv))
                if sname not in ("ctx", "ctxpath"):
                    cmd = [cli] + [x for d_ in (dv or []) for x in ("-d", d_)] + [pth]
                    jobs.append(("cli", g.id, sname, proc, cmd, None, text, None))
                pf = prefixes[proc % len(prefixes)]
                jobs.append(("buildscript", g.id, sname, proc,
                             [front, "compile", pth, dvs, os.path.join(tdir, "%s.%s.bs%d.rs" % (g.id, sname, proc)), pf], pf, text, cenv))
                if proc == 0:
                    # Compile::directory: the grammar two levels down a directory tree, next to another grammar
                    dd = os.path.join(tdir, "dir.%s.%s" % (g.id, sname))
                    shutil.rmtree(dd, ignore_errors=True)
                    # ... the subdirectory is a symbolic link, and so is a second copy of the grammar file
                    os.makedirs(os.path.join(dd, "a"))
                    os.makedirs(os.path.join(dd, "real"))
                    os.symlink(os.path.join(dd, "real"), os.path.join(dd, "a", "b"))
                    open(os.path.join(dd, "real", "g.ebnf"), "w", newline="").write(text)
                    os.makedirs(os.path.join(dd, "files"))
                    open(os.path.join(dd, "files", "orig.ebnf"), "w", newline="").write(text)
                    os.symlink(os.path.join(dd, "files", "orig.ebnf"), os.path.join(dd, "a", "link.ebnf"))
                    open(os.path.join(dd, "a", "other.ebnf"), "w").write("@export\nOther = 'o';\n")
                    # ... and entries whose names start with a dot are entries like any other
                    os.makedirs(os.path.join(dd, "a", ".hidden"))
                    open(os.path.join(dd, "a", ".hidden", "g.ebnf"), "w", newline="").write(text)
                    open(os.path.join(dd, "a", ".dotfile.ebnf"), "w", newline="").write(text)
                    pf2 = prefixes[(proc + 1) % len(prefixes)]
                    jobs.append(("builddir", g.id, sname, proc, [front, "compiledir", dd, dvs, pf2], pf2, text, cenv))

    def run(job):
        route, gid, sname, proc, cmd, pf, text, cenv = job
        if route in ("lib", "buildscript") and os.path.exists(cmd[4]):
            os.remove(cmd[4])
        if route == "buildscript" and proc >= 1:
            # something lies at the destination already: an empty placeholder, or the beginning of a file
            with open(cmd[4], "w") as f_:
                f_.write("" if proc == 1 else "// This file was gener")
        r = run_door(cmd, extra_env=cenv)
        return r

    with ThreadPoolExecutor(max_workers=vlib.NCPU) as ex:
        outs = list(ex.map(run, jobs))
    events = []
    for (route, gid, sname, proc, cmd, pf, text, cenv), r in zip(jobs, outs):
        fail = door_failure(r)
        if fail or r["code"] != 0:
            raise ToolError("route %s failed on %s: %s" % (route, gid, fail or r))
        crc = "%08x" % (zlib.crc32(text.encode("utf-8")) & 0xFFFFFFFF)
        if route == "lib":
            body = open(cmd[4]).read()
            framed = True
        elif route == "cli":
            ok, rest = split_header(r["out"])
            framed = ok and rest.startswith("\n") and rest.endswith("\n")
            body = rest[1:-1] if framed else rest
        else:
            outp = cmd[4] if route == "buildscript" else os.path.join(cmd[2], "a", "b", "g.rs")
            if route == "builddir":
                others = [os.path.join(cmd[2], "a", "link.rs"), os.path.join(cmd[2], "a", ".hidden", "g.rs"), os.path.join(cmd[2], "a", ".dotfile.rs")]
                missing = [x for x in [outp] + others if not os.path.exists(x)]
                if missing:
                    res.add(Violation("C16", "Routes", "Compile::directory answers Ok but wrote no code for %s (a grammar reached through a "
                                      "symbolic link, or an entry whose name starts with a dot)" % os.path.relpath(missing[0], cmd[2]), None,
                                      {"name": gid, "site": "builddir:missing"}))
                    continue
                if any(open(outp).read() != open(x).read() for x in others):
                    res.add(Violation("C16", "Routes", "Compile::directory wrote different files for the same grammar text reached by two paths",
                                      None, {"name": gid, "site": "builddir:two-paths"}))
            content = open(outp).read()
            ok, rest = split_header(content)
            lead = "\n" + pf + "\n"
            framed = ok and rest.startswith(lead)
            body = rest[len(lead):] if framed else rest
        events.append({"ev": "emit", "route": route, "g": gid, "s": sname, "proc": proc, "framed": bool(framed),
                       "body": hashlib.sha256(body.encode("utf-8")).hexdigest()[:16]})
    tp = os.path.join(d, "routes_trace.ndjson")
    with open(tp, "w") as f:
        for e in events:
            f.write(json.dumps(e) + "\n")
    ok, line, st = traces.validate("routes", tp, len(events), module="Routes")
    if not ok:
        e = events[line - 1]
        first = next(x for x in events if x["g"] == e["g"] and x["s"] == e["s"])
        what = ("the %s route does not frame the code as documented (header%s)" % (e["route"], " + prefix" if e["route"] in ("buildscript", "builddir") else "")
                if not e["framed"] else
                "the %s route (process %d) emitted different code for grammar %s settings %s than the %s route (process %d)" % (
                    e["route"], e["proc"], e["g"], e["s"], first["route"], first["proc"]))
        res.add(Violation("C16", "Routes", what, None, {"name": e["g"], "site": "%s:%s" % (e["route"], e["s"]), "rejected_event": e}))
    res.coverage = {
        "explanation": "byte identity decides: %d observations (library / peginator-cli / Compile::file / Compile::directory route x %d grammars x %d derive sets x %d "
                       "fresh processes, 3 prefixes) reduced to digests of the code after each route's framing; the TLA+ trace "
                       "specification Routes.tla accepts the observation sequence iff one function F(grammar, settings) explains all "
                       "of them; the peginate! route is compared behaviourally (%d cases: full outcome incl. Debug tree, tracer "
                       "callbacks and cursor advances equal to the library-generated parser)" % (len(events), len(gs), len(settings), k, nmacro),
        "evaluations": len(events) + nmacro, "distinct_nontrivial": len(gs) * len(settings),
        "rule": "non-trivial = distinct (grammar, derive set) pair observed through all three routes",
        "traces_validated_against_impl": 1, "states": st["states"], "transitions": max(1, st["states"] - 1),
        "samples": events[:3],
    }
    res.assumptions = ["the header's build time differs between separately built binaries and is outside the comparison, as the property says"]
    return res



# ---------------------------------------------------------------------------------------------- C03
def rust_ident(n):
    import families
    return "r#" + n if n in families.RAW_OK else n


def rust_type(t):
    import re
    return re.sub(r"[A-Za-z_][A-Za-z0-9_]*", lambda m: m.group(0) if m.group(0) in ("Option", "Vec", "Box", "String", "char")
                  else rust_ident(m.group(0)), t)


def assertion_module(table):
    """exact-type assertions for one grammar from the specification's type table"""
    out = ["use std::marker::PhantomData as __PD;",
           "fn __same<T>(_: __PD<T>, _: __PD<T>) {}",
           "fn __ty<T>(_: &T) -> __PD<T> { __PD }"]

    def enum_fn(name, variants):
        arms = []
        for v in variants:
            inner = rust_type(("Box<%s>" % v["t"]) if v["boxed"] else v["t"])
            arms.append("        %s::%s(x) => __same(__ty(x), __PD::<%s>)," % (rust_ident(name), rust_ident(v["t"]), inner))
        return "#[allow(non_snake_case)] pub fn __assert_enum_%s(v: &%s) {\n    match v {\n%s\n    }\n}" % (
            name, rust_ident(name), "\n".join(arms))

    for t in table:
        r = t["rule"]
        if t["kind"] == "alias":
            out.append("#[allow(non_snake_case)] pub fn __assert_alias_%s() { __same(__PD::<%s>, __PD::<%s>); }" % (
                r, rust_ident(r), rust_type(t["ty"])))
        elif t["kind"] == "enum":
            out.append(enum_fn(r, t["variants"]))
        else:
            pats = ["%s: _" % rust_ident(f["name"]) for f in t["fields"]] + (["position: _"] if t["position"] else [])
            body = ["    let %s { %s } = v;" % (rust_ident(r), ", ".join(pats))]
            for f in t["fields"]:
                body.append("    __same(__ty(&v.%s), __PD::<%s>);" % (rust_ident(f["name"]), rust_type(f["ty"])))
            if t["position"]:
                body.append("    __same(__ty(&v.position), __PD::<std::ops::Range<usize>>);")
            out.append("#[allow(non_snake_case)] pub fn __assert_struct_%s(v: &%s) {\n%s\n}" % (r, rust_ident(r), "\n".join(body)))
            for e in t["enums"]:
                out.append(enum_fn(e["name"], e["variants"]))
    return "\n".join(out) + "\n"


def check_C03(tier, seed, replay):
    import re
    import families
    import peg
    res = Result()
    gs = families.family("types", tier, seed)
    if replay:
        rp = json.load(open(replay))
        gs = [g for g in gs if g.meta["shape"] == rp.get("name")]
    d = vlib.famdir("types", tier)
    pre = os.path.join(d, "pre")
    os.makedirs(pre, exist_ok=True)
    json.dump(peg.corpus_json(gs), open(os.path.join(pre, "corpus.json"), "w"))
    t = tlc_simple("types", "TypeShapes.tla", "TypeShapes.cfg", tier, env={"CORPUS": os.path.join(pre, "corpus.json")})
    if t["rc"] != 0:
        # ArityMapping violated: the implemented arity lattice (transcribed) disagrees with the documented mapping
        raise ToolError("TypeShapes: ArityMapping is violated in the model:\n%s" % (t["violation"] or "")[:2000])
    tables = {o["g"]: o["types"] for o in t["prints"]}
    for g in gs:
        g.meta["user_rs"] = assertion_module(tables[g.id])
    by_id = {g.id: g for g in gs}
    dropped = {}
    build_rounds = 0
    while True:
        build_rounds += 1
        live = [g for g in gs if g.id not in dropped]
        cdir, _ = vlib.build_corpus("types", tier, seed, grammars=live)
        cd = vlib.materialise_crate("types", tier, cdir)
        ok, err, binp = vlib.cargo_build(cd)
        front = {}
        for line in open(os.path.join(cd, "front.tsv"), newline="\n"):
            f = line.rstrip("\n").split("\t")
            if len(f) >= 2:
                front[f[0]] = (f[1], f[2] if len(f) > 2 else "")
        for gid, (verdict, msg) in front.items():
            if verdict == "error" and gid not in dropped:
                # in this family every member is built to be accepted
                dropped[gid] = ("rejected", msg)
                res.add(Violation("C03", "Accepted", "the compiler rejects a grammar of the documented fragment (%s): %s" % (
                    by_id[gid].meta["shape"], msg), None, {"name": by_id[gid].meta["shape"], "site": by_id[gid].meta.get("local_name", by_id[gid].meta["shape"]),
                                                         "grammar": peg.grammar_text(by_id[gid])}))
        if ok:
            break
        # rustc's stderr as blocks (one per diagnostic); a block belongs to the grammars whose files it points into
        blocks = re.split(r"\n(?=error|warning|note: |help: |   Compiling |For more information)", err)
        per = {}
        for b in blocks:
            if not b.startswith("error"):
                continue
            for gid in set(re.findall(r"/(ty_\d+)\.(?:user\.)?rs", b)):
                per.setdefault(gid, []).append(b)
        bad = set(per) - set(dropped)
        if not bad or build_rounds > 6:
            raise ToolError("the types family does not build and the errors cannot be attributed:\n%s" % err[-3000:])
        for gid in sorted(bad):
            b = per[gid][0]
            dropped[gid] = ("rustc", b[:700])
            g = by_id[gid]
            in_user = bool(re.search(r"/%s\.user\.rs" % gid, b)) and not re.search(r"/%s\.rs" % gid, b)
            which = "exact-type assertions" if in_user else "generated code"
            res.add(Violation("C03", "TypeMapping" if in_user else "Compiles",
                              "%s of grammar %s do not compile: %s" % (which, g.meta["shape"], b[:500]), None,
                              {"name": g.meta["shape"], "site": g.meta.get("local_name", g.meta["shape"]), "grammar": peg.grammar_text(g),
                               "expected_types": tables[gid]}))
    # no `unsafe` in generated code (the crate also forbids it)
    outdir = None
    import glob
    cands = glob.glob(os.path.join(vlib.WORK, "target", "debug", "build", "fam_types_%s-*" % tier, "out"))
    if cands:
        outdir = max(cands, key=os.path.getmtime)
        for g in gs:
            pth = os.path.join(outdir, g.id + ".rs")
            if os.path.exists(pth) and re.search(r"\bunsafe\b", re.sub(r'r#unsafe|"[^"]*"', "", open(pth).read())):
                res.add(Violation("C03", "NoUnsafe", "generated code of %s contains `unsafe`" % g.meta["shape"], None,
                                  {"name": g.meta["shape"], "site": "unsafe"}))
    nfields = sum(1 for g in gs for tt in tables[g.id] if tt["kind"] == "struct" for _ in tt["fields"])
    res.coverage = {
        "states": t["distinct"], "transitions": max(1, t["states"]), "traces_validated_against_impl": len(gs) - len(dropped),
        "evaluations": len(gs), "distinct_nontrivial": sum(1 for g in gs if any(tt["kind"] != "alias" for tt in tables[g.id])),
        "rule": "field-plumbing shapes (every depth-1 tree over field atoms, sampled deeper, hand-written), every rule kind, "
                "Rust keywords and the generator's own local names as rule / field names, derive sets; the type table is "
                "evaluated by TLC from the documented mapping and compiled as exact-type assertions (PhantomData<T> equality, "
                "exhaustive destructuring, wildcard-free match) against the real generated code under forbid(unsafe_code); "
                "non-trivial = grammar declaring at least one struct or enum",
        "exhaustive": False, "fields_asserted": nfields, "build_rounds": build_rounds,
        "samples": [{"grammar": gs[i].meta["shape"], "types": tables[gs[i].id]} for i in (0, len(gs) // 2, len(gs) - 1)][:3],
    }
    res.assumptions = ["rustc judges compilation; TLC supplies the enumeration and the expected type table"]
    return res



# ---------------------------------------------------------------------------------------------- C12
def meta_grammar():
    """the grammar of grammar files, read from grammar.ebnf by the independent reader"""
    import ebnf_reader
    meta = ebnf_reader.read_grammar(open(os.path.join(vlib.REPO, "grammar.ebnf")).read(), "meta")
    meta.meta = {"lean": True, "shape": "grammar.ebnf"}
    meta.alpha = []
    meta.maxlen = 0
    return meta


def front_ast(front, text, path):
    with open(path, "w") as f:
        f.write(text)
    r = run_door([front, "ast", path], timeout=60)
    return r


def check_C12(tier, seed, replay):
    import random
    import ebnf_reader
    import families
    import layout
    import peg
    from concurrent.futures import ThreadPoolExecutor
    res = Result()
    rnd = random.Random(seed * 977 + 12)
    front = tools_bin("front")
    d = vlib.famdir("meta", tier)
    tdir = os.path.join(d, "texts")
    os.makedirs(tdir, exist_ok=True)
    # A. the front end as an instance of the machine: Meta (independent reader) run by TLC on laid-out texts
    sources = families.meta_sources()
    extra_src = []
    for fam in ("ops", "fields", "user", "ws"):
        fs = families.family(fam, tier, seed)
        extra_src += families.sample(rnd, [g for g in fs if len(peg.grammar_text(g)) < 260], 2 if tier == "quick" else 12)
    texts = []    # (name, source grammar, text)
    for g in sources + extra_src:
        texts.append(("%s/plain" % g.meta.get("shape", g.id), g, layout.layout_text(g, rnd, "plain")))
        for k in range(1 if tier == "quick" else 4):
            texts.append(("%s/wild%d" % (g.meta.get("shape", g.id), k), g, layout.layout_text(g, rnd, "wild")))
    if replay:
        rp = json.load(open(replay))
        if rp.get("text") is not None:
            texts = [(rp.get("name", "replay"), None, rp["text"])]
    meta = meta_grammar()
    meta.extra = [list(t) for _, _, t in texts]
    cdir = os.path.join(d, "corpus")
    os.makedirs(cdir, exist_ok=True)
    json.dump(peg.corpus_json([meta]), open(os.path.join(cdir, "corpus.json"), "w"))
    key = "meta:%s:%s:%s:%s" % (vlib.tool_hash(), vlib._hash_tree([os.path.join(vlib.REPO, "grammar.ebnf")], (".ebnf",)), tier, seed)
    pj = os.path.join(d, "tlc.json")
    if vlib.cached(d, "metatlc", key) and os.path.exists(pj) and not replay:
        t = json.load(open(pj))
    else:
        out = os.path.join(d, "tlc.out")
        rc, secs = vlib.run_tlc("MCPeg.tla", "MCPeg.cfg", out, env={"CORPUS": os.path.join(cdir, "corpus.json")}, timeout=7200,
                                extra=("-coverage", "1"))
        t = vlib.parse_tlc_output(out)
        t["rc"], t["secs"] = rc, secs
        log("TLC Meta run: rc=%d %d states, %d texts in %.0fs" % (rc, t["distinct"], len(t["replays"]), secs))
        if rc != 0:
            raise ToolError("Meta run: the machine instantiated with grammar.ebnf violates an invariant (machine vs reference "
                            "semantics, or grammar.ebnf is not well-formed):\n%s" % (t["violation"] or "")[:2000])
        if not replay:
            json.dump(t, open(pj, "w"))
            vlib.mark(d, "metatlc", key)
    spec_tree = {tuple(r["inp"]): r for r in t["replays"]}

    def real(i):
        return front_ast(front, texts[i][2], os.path.join(tdir, "t%04d.ebnf" % i))

    with ThreadPoolExecutor(max_workers=vlib.NCPU) as ex:
        reals = list(ex.map(real, range(len(texts))))
    n_meta = 0
    for (name, src, text), r in zip(texts, reals):
        extra = {"name": name, "text": text, "site": name.split("/")[0]}
        fail = door_failure(r)
        if fail:
            res.add(Violation("C12", "Reads", "the front end %s on %s" % (fail, name), None, extra))
            continue
        e = spec_tree.get(tuple(ord(c) for c in text))
        if e is None:
            raise ToolError("no Meta outcome for text %s" % name)
        n_meta += 1
        out = r["out"].strip()
        if out.startswith("error\t"):
            if e["ok"]:
                res.add(Violation("C12", "Reads", "the front end rejects a text that follows the syntax reference (%s): %s" % (name, out[:120]),
                                  None, extra))
            else:
                # front end and grammar.ebnf (as the model runs it) agree in rejecting: the text was printed from a
                # grammar, so the independent reader of doc/syntax.md has the last word
                try:
                    readable = ebnf_reader.norm_grammar(ebnf_reader.read_grammar(text)) == ebnf_reader.norm_grammar(src)
                except Exception:      # noqa
                    readable = False
                if readable:
                    res.add(Violation("C12", "Reads", "the front end - and grammar.ebnf itself - reject a text that follows the syntax reference "
                                      "(%s): %s" % (name, out[:120]), None, extra))
            continue
        if not e["ok"]:
            res.add(Violation("C12", "Reads", "the front end accepts a text the grammar of grammar files does not match (%s)" % name, None, extra))
            continue
        tree = dbgparse.parse_debug(out)
        if tree != e["tree"]:
            res.add(Violation("C12", "Denotes", "the front end reads %s into a different structure than grammar.ebnf denotes" % name, None,
                              dict(extra, got=json.dumps(tree)[:1500], expected=json.dumps(e["tree"])[:1500])))
            continue
        if src is not None:
            back = ebnf_reader.norm_grammar(layout.grammar_of(tree))
            if back != ebnf_reader.norm_grammar(src):
                res.add(Violation("C12", "Denotes", "the structure read from %s is not the grammar the text was printed from" % name, None, extra))
    # B. every grammar file of the repository: the independent reader and the real front end agree
    repo_files = [os.path.join(vlib.REPO, "grammar.ebnf")]
    for root, dn, fn in os.walk(os.path.join(vlib.REPO, "test", "src")):
        repo_files += [os.path.join(root, f) for f in sorted(fn) if f.endswith("ebnf")]
    n_repo = 0
    for f_ in repo_files:
        text = open(f_).read()
        r = front_ast(front, text, os.path.join(tdir, "repo.ebnf"))
        fail = door_failure(r)
        name = os.path.relpath(f_, vlib.REPO)
        if fail or r["out"].startswith("error\t"):
            res.add(Violation("C12", "Reads", "the front end does not read %s: %s" % (name, fail or r["out"][:100]), None, {"name": name, "site": name}))
            continue
        n_repo += 1
        if ebnf_reader.norm_grammar(layout.grammar_of(dbgparse.parse_debug(r["out"].strip()))) != ebnf_reader.norm_grammar(
                ebnf_reader.read_grammar(text)):
            res.add(Violation("C12", "Denotes", "the front end and the independent reader of doc/syntax.md read %s differently" % name, None,
                              {"name": name, "site": name}))
    # C. behaviour of parsers generated from differently spelled grammars, and of every escape form
    res2, runs, cases = generic(
        "C12", ["layout", "esc"], tier, seed, replay if replay and json.load(open(replay)).get("family") else None,
        [lambda p, c: None if c.crashed else props.p_conforms(p, c), lambda p, c: None if c.crashed else props.p_tree(p, c, ranges=True)],
        "", lambda c: c.inp != [], require=("Lit", "Range", "CallChar")) if not (replay and not json.load(open(replay)).get("family")) else (Result(), [], [])
    res.violations += res2.violations
    res.notes += res2.notes
    cov = res2.coverage or {"states": 0, "transitions": 0, "evaluations": 0, "samples": []}
    res.coverage = {
        "states": cov.get("states", 0) + t["distinct"], "transitions": cov.get("transitions", 0) + t["states"],
        "traces_validated_against_impl": n_meta + n_repo + cov.get("evaluations", 0),
        "evaluations": len(texts) + len(repo_files) + cov.get("evaluations", 0),
        "distinct_nontrivial": sum(1 for n_, _, _ in texts if "/wild" in n_) + sum(1 for c in cases if c.inp),
        "rule": "A: grammars using every element of the documented syntax, printed plainly and in wild layouts (whitespace, "
                "comments, both quote styles, every escape form, redundant parentheses, directive order), read by TLC running "
                "PegMachine on grammar.ebnf (obtained with an independent reader) and by the real front end - trees must be equal, "
                "and equal to the source AST; B: every .ebnf of the repository, independent reader vs real front end; C: parsers "
                "generated from wildly spelled grammars and from every escape form behave as the AST says on all inputs up to the "
                "bound; non-trivial = wild layout, or non-empty input",
        "meta_texts": n_meta, "repo_grammars": n_repo, "meta_run_states": t["distinct"],
        "behaviour_cases": len(cases), "exhaustive": False,
        "samples": [{"layout": texts[1][2][:400]}] + cov.get("samples", [])[:2],
    }
    res.assumptions = ["the independent reader (gen/ebnf_reader.py) is trusted for one input, grammar.ebnf, and cross-checked on all "
                       "repository grammars and all corpus texts",
                       "the layout printer embodies the documented syntax (doc/syntax.md)"]
    return res



# ---------------------------------------------------------------------------------------------- C17
def check_C17(tier, seed, replay):
    import hashlib
    import random
    import shutil
    import subprocess
    import families
    import layout
    import peg
    from concurrent.futures import ThreadPoolExecutor
    res = Result()
    rnd = random.Random(seed * 613 + 17)
    cli0 = cli_bin()
    front0 = tools_bin("front")
    scratch = "/tmp/verif_boot_%d" % os.getpid()
    shutil.rmtree(scratch, ignore_errors=True)
    try:
        subprocess.run(["rsync", "-a", "--exclude", "target", "--exclude", ".git", vlib.REPO + "/", scratch + "/"], check=True)
        gtext_path = os.path.join(vlib.REPO, "grammar.ebnf")

        def gen(cli, cwd):
            p1 = subprocess.run([cli, gtext_path], stdout=subprocess.PIPE, stderr=subprocess.PIPE, cwd=cwd)
            if p1.returncode != 0:
                raise ToolError("generator failed on grammar.ebnf: %s" % p1.stdout.decode()[-500:])
            p2 = subprocess.run(["rustfmt", "--edition", "2021"], input=p1.stdout, stdout=subprocess.PIPE, stderr=subprocess.PIPE)
            if p2.returncode != 0:
                raise ToolError("rustfmt failed: %s" % p2.stderr.decode()[-500:])
            return p2.stdout.decode()

        def body(text):
            ok, rest = split_header(text)
            if not ok:
                raise ToolError("generated front end lacks the documented header")
            return rest

        shipped = open(os.path.join(vlib.REPO, "codegen", "src", "grammar", "generated.rs")).read()
        s1 = gen(cli0, vlib.REPO)
        # a generator built around S1
        with open(os.path.join(scratch, "codegen", "src", "grammar", "generated.rs"), "w") as f:
            f.write(s1)
        e = vlib.cargo_env()
        e["CARGO_TARGET_DIR"] = os.path.join(vlib.WORK, "target_boot")
        p_ = subprocess.run(["cargo", "build", "--offline", "-p", "peginator-cli", "--manifest-path", os.path.join(scratch, "Cargo.toml")],
                            env=e, stdout=subprocess.PIPE, stderr=subprocess.PIPE, text=True)
        if p_.returncode != 0:
            res.add(Violation("C17", "Fixpoint", "a generator built around the regenerated front end does not compile: %s" % p_.stderr[-1500:],
                              None, {"site": "stage1-build"}))
            return finish_C17(res, [], 0, 0)
        cli1 = os.path.join(vlib.WORK, "target_boot", "debug", "peginator-cli")
        s2 = gen(cli1, scratch)
        # the regenerated front end as a library (the `front` tool built against the scratch copy)
        tdir = os.path.join(scratch, "verif_tools")
        shutil.copytree(os.path.join(vlib.VERIF, "harness", "tools"), tdir)
        ct = open(os.path.join(tdir, "Cargo.toml")).read().replace("/repo/", scratch + "/")
        ct = ct.replace('name = "verif_tools"', 'name = "verif_tools_boot"')
        open(os.path.join(tdir, "Cargo.toml"), "w").write(ct)
        p_ = subprocess.run(["cargo", "build", "--offline", "--bin", "front"], cwd=tdir, env=e, stdout=subprocess.PIPE, stderr=subprocess.PIPE, text=True)
        if p_.returncode != 0:
            raise ToolError("building the front tool against the regenerated front end failed: %s" % p_.stderr[-1500:])
        front1 = os.path.join(vlib.WORK, "target_boot", "debug", "front")
        # texts: valid layouts, restriction-violating grammars, mutated texts, repository grammars
        texts = []
        srcs = []
        for fam in ("ops", "fields", "ws", "user", "bad", "inc"):
            fs = families.family(fam, tier, seed)
            srcs += families.sample(rnd, fs, 6 if tier == "quick" else 60)
        for g in srcs:
            texts.append(layout.layout_text(g, rnd, "wild") if not g.meta.get("text") and g.meta.get("expect", "code") == "code"
                         else peg.grammar_text(g))
        repo_texts = [open(gtext_path).read()]
        for root, dn, fn in os.walk(os.path.join(vlib.REPO, "test", "src")):
            repo_texts += [open(os.path.join(root, f)).read() for f in sorted(fn) if f.endswith("ebnf")]
        texts += repo_texts
        junk = ["(", ")", "[", "]", "{", "}", "!", "&", "|", ";", "=", ":", "@", "*", ">", "'", '"', "\\", "..", "$", "i'", "é", "#", "\n",
                "\ufeff", "\r\n", "\x00", "\u00a0", "\t"]
        # characters that an editor may put at the very beginning or end of a file
        texts += [pre + t_ + post for t_ in repo_texts[:3] for pre, post in (("\ufeff", ""), ("\ufeff\ufeff", ""), (" \n", "\x1a"), ("", "\ufeff"), ("\x00", ""))]
        for i in range(60 if tier == "quick" else 1500):
            cs = list(rnd.choice(texts[:len(srcs)] + repo_texts))
            for _ in range(rnd.randint(1, 3)):
                pos = rnd.randint(0, len(cs))
                if rnd.random() < 0.4 and cs:
                    del cs[min(pos, len(cs) - 1)]
                else:
                    cs.insert(pos, rnd.choice(junk))
            if rnd.random() < 0.2:
                cs = cs[:rnd.randint(0, len(cs))]
            texts.append("".join(cs))
        wdir = os.path.join(vlib.famdir("boot", tier), "texts")
        os.makedirs(wdir, exist_ok=True)

        def read_both(i):
            pth = os.path.join(wdir, "t%05d.ebnf" % i)
            with open(pth, "w") as f:
                f.write(texts[i])
            return (run_door([front0, "ast", pth], timeout=60), run_door([front1, "ast", pth], timeout=60),
                    run_door([front1, "astparse", pth], timeout=60), run_door([front0, "astparse", pth], timeout=60))

        with ThreadPoolExecutor(max_workers=vlib.NCPU) as ex:
            outs = list(ex.map(read_both, range(len(texts))))
        dg = lambda x: hashlib.sha256(x.encode("utf-8")).hexdigest()[:16]  # noqa: E731
        events = [{"ev": "stage", "n": 0, "code": dg(body(shipped))}, {"ev": "stage", "n": 1, "code": dg(body(s1))},
                  {"ev": "stage", "n": 2, "code": dg(body(s2))}]
        for i, (a, b, c_, d_) in enumerate(outs):
            # 0 / 1: shipped / regenerated front end through Grammar::from_str; 2 / 3: the regenerated / shipped generated
            # parser itself (PegParser::parse) - four readings of every text, one answer
            for n, r in ((0, a), (1, b), (2, c_), (3, d_)):
                out = r["out"] if r["status"] == "exit" and r["code"] == 0 else "%s:%s" % (r["status"], r["code"])
                events.append({"ev": "read", "n": n, "text": "t%05d" % i, "out": dg(out)})
        tp = os.path.join(vlib.famdir("boot", tier), "boot_trace.ndjson")
        with open(tp, "w") as f:
            for ev in events:
                f.write(json.dumps(ev) + "\n")
        ok, line, st = traces.validate("boot", tp, len(events), module="Bootstrap")
        if not ok:
            ev = events[line - 1]
            if ev["ev"] == "stage":
                what = ("regenerating the front end from grammar.ebnf with the tree's generator does not reproduce the shipped "
                        "codegen/src/grammar/generated.rs" if ev["n"] == 1 else
                        "the generator built around the regenerated front end produces different code (stage 2 differs from stage 1)")
                import difflib
                a_, b_ = (body(shipped), body(s1)) if ev["n"] == 1 else (body(s1), body(s2))
                diff = "\n".join(list(difflib.unified_diff(a_.split("\n"), b_.split("\n"), lineterm="", n=1))[:60])
                res.add(Violation("C17", "Fixpoint", what, None, {"site": "stage%d" % ev["n"], "diff": diff}))
            else:
                i = int(ev["text"][1:])
                which = {1: "the shipped and the regenerated front end read a text differently",
                         2: "the parser generated from grammar.ebnf (PegParser::parse) and the shipped front end (Grammar::from_str) read a text differently",
                         3: "the shipped front end reads a text differently through Grammar::from_str and through PegParser::parse"}.get(ev["n"], "readings differ")
                res.add(Violation("C17", "SameReading", which, None,
                                  {"site": "reading", "text": texts[i][:2000], "shipped": outs[i][0]["out"][:600],
                                   "regenerated": outs[i][1]["out"][:600], "regenerated_parse": outs[i][2]["out"][:600]}))
        return finish_C17(res, events, st["states"], len(texts))
    finally:
        shutil.rmtree(scratch, ignore_errors=True)


def finish_C17(res, events, states, ntexts):
    res.coverage = {
        "states": max(1, states), "transitions": max(1, states - 1), "traces_validated_against_impl": 1 if events else 0,
        "evaluations": len(events), "distinct_nontrivial": ntexts,
        "rule": "stage 0 (shipped), 1 (regenerated with the tree's generator) and 2 (regenerated by a generator built around stage 1) "
                "of the front end, rustfmt-normalised and with the header removed; both front ends on wild layouts of corpus grammars, "
                "restriction-violating grammars, all repository grammars and seeded mutations / truncations; the observation sequence "
                "is validated by TLC against Bootstrap.tla; non-trivial = distinct text read by both front ends",
        "exhaustive": False, "samples": events[:4],
    }
    res.assumptions = ["the header (version, build time, CRC) is outside the comparison", "the scratch copy lives under /tmp and is removed"]
    return res


CHECKS = {"C17": check_C17, "C12": check_C12, "C03": check_C03, "C16": check_C16, "C20": check_C20, "C15": check_C15, "C18": check_C18, "C11": check_C11, "C01": check_C01, "C02": check_C02, "C04": check_C04, "C05": check_C05, "C06": check_C06,
          "C07": check_C07, "C08": check_C08, "C09": check_C09, "C10": check_C10, "C13": check_C13,
          "C14": check_C14, "C19": check_C19}
