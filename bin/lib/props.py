"""Property predicates evaluated on (expected by the specification, observed on the real code)."""
import json
import os
import sys
import time

import vlib
from vlib import ToolError, log

sys.path.insert(0, os.path.join(vlib.VERIF, "gen"))
import dbgparse  # noqa: E402


# ----------------------------------------------------------------------------- error kinds

def spec_kind(k):
    t = k["k"]
    if t == "Char":
        return ("Char", k["a"])
    if t == "Str":
        return ("Str", tuple(k["s"]))
    if t == "Range":
        return ("Range", k["a"], k["b"])
    if t in ("Class", "Check", "Extern"):
        return (t, k["n"])
    return (t,)


def real_kind(dbg):
    """Debug of ParseErrorSpecifics -> the same tuples"""
    v = dbgparse.parse_debug(dbg)
    n = v["$"]
    if n == "ExpectedAnyCharacter":
        return ("Any",)
    if n == "ExpectedCharacter":
        return ("Char", v["c"]["$c"])
    if n == "ExpectedCharacterRange":
        return ("Range", v["from"]["$c"], v["to"]["$c"])
    if n == "ExpectedString":
        return ("Str", tuple(v["s"]["$s"]))
    if n == "ExpectedCharacterClass":
        return ("Class", "".join(map(chr, v["name"]["$s"])))
    if n == "ExpectedEoi":
        return ("Eoi",)
    if n == "NegativeLookaheadFailed":
        return ("Neg",)
    if n == "CheckFunctionFailed":
        return ("Check", "".join(map(chr, v["function_name"]["$s"])))
    if n == "ExternRuleFailed":
        return ("Extern", "".join(map(chr, v["error_string"]["$s"])))
    if n == "LeftRecursionSentinel":
        return ("Sentinel",)
    if n == "Other":
        return ("Other",)
    raise ToolError("unknown error kind " + dbg)


# ----------------------------------------------------------------------------- pipeline

USER_PANIC = "verif: the user's extern function panics"


class Case:
    """one (grammar, input): what the specification expects and what the real parser did"""
    __slots__ = ("fam", "g", "gid", "inp", "exp", "act", "_tree")

    def __init__(self, fam, g, inp, exp, act):
        self.fam = fam
        self.g = g
        self.gid = g.id
        self.inp = inp
        self.exp = exp
        self.act = act
        self._tree = None

    @property
    def text(self):
        return "".join(chr(c) for c in self.inp)

    @property
    def crashed(self):
        return "crash" in self.act or "panic" in self.act.get("res", {})

    @property
    def crash_msg(self):
        if "crash" in self.act:
            return self.act["crash"]
        return "panic: " + self.act["res"].get("panic", "")

    @property
    def ok(self):
        return self.act["res"].get("ok")

    @property
    def tree(self):
        if self._tree is None:
            self._tree = dbgparse.parse_debug(self.act["res"]["dbg"])
        return self._tree


class MachineRun:
    """spec MC + real harness over one family"""

    def __init__(self, fam, tier, seed, grammars=None, indented=True, cfg="MCPeg.cfg"):
        self.fam, self.tier, self.seed = fam, tier, seed
        t0 = time.time()
        self.cdir, self.grammars = vlib.build_corpus(fam, tier, seed, grammars)
        self.real = vlib.harness_outcomes(fam, tier, seed, self.cdir, indented=indented)
        self.tlc = vlib.tlc_corpus(fam, tier, seed, self.cdir, cfg=cfg)
        self.tlc_lean = None
        if os.path.exists(os.path.join(self.cdir, "corpus_lean.json")):
            # the long inputs, model-checked without ghost variables (expected outcome and tree only)
            self.tlc_lean = vlib.tlc_corpus(fam, tier, seed, self.cdir, cfg=cfg, corpus="corpus_lean.json")
            if self.tlc_lean["rc"] != 0:
                raise ToolError("the specification violates its own invariant on the long inputs of family %s:\n%s" % (
                    fam, (self.tlc_lean["violation"] or "")[:2000]))
        self.secs = time.time() - t0
        self.cases = []
        self.rejected = {}
        self.real_only = []     # cases beyond the model-checking bound: no expectation, real runs only
        self.synthetic = []
        self.upanic = []        # cases in which a user function panics, as expected: judged by what follows them
        self.upanic_bad = []    # ... and the caller did not get that panic
        self.by_g = {g.id: g for g in self.grammars}
        if self.real["build_ok"]:
            exp = {(r["g"], tuple(r["inp"])): r for r in self.tlc["replays"]}
            lean = {(r["g"], tuple(r["inp"])): dict(r, lean=True) for r in (self.tlc_lean or {}).get("replays", [])}
            self.rejected = {gid: v for gid, v in self.real["front"].items() if v[0] != "code"}
            for a in self.real["outcomes"]:
                if a.get("missing"):
                    if a["g"] in self.rejected:
                        continue
                    raise ToolError("corpus grammar %s is missing from the runner: %s" % (
                        a["g"], self.real["front"].get(a["g"])))
                if a.get("inp") == [-4]:
                    # a synthetic input of gigabytes (see the case line): judged by the check that put it there
                    self.synthetic.append(Case(fam, self.by_g[a["g"]], a["inp"], None, a))
                    continue
                key = (a["g"], tuple(a["inp"]))
                e = exp.get(key)
                if e is None:
                    g_ = self.by_g[a["g"]]
                    if len(a["inp"]) > 20000 or [chr(c) for c in a["inp"]] in getattr(g_, "real_extra", []):
                        # beyond the exhaustive bound: expectation from the lean run (no attempt sets, no history)
                        self.real_only.append(Case(fam, g_, a["inp"], lean.get(key), a))
                        continue
                    if self.tlc["rc"] == 0:
                        raise ToolError("no expected outcome for %s %r" % (key[0], key[1][:40]))
                    continue
                c_ = Case(fam, self.by_g[a["g"]], a["inp"], e, a)
                if e.get("upanic"):
                    # the specification says: a user function panics here, and the panic reaches the caller
                    (self.upanic if USER_PANIC in str(a.get("res", {}).get("panic", "")) else self.upanic_bad).append(c_)
                    continue
                self.cases.append(c_)

    def model_ok(self):
        return self.tlc["rc"] == 0


class Violation:
    def __init__(self, prop, formula, what, case=None, extra=None):
        self.prop = prop
        self.formula = formula
        self.what = what
        self.case = case
        self.extra = extra or {}

    def ident(self):
        """what the known-findings file matches on"""
        d = {"formula": self.formula}
        if self.case is not None:
            d.update({"family": self.case.fam, "shape": self.case.g.meta.get("shape", self.case.gid),
                      "input": self.case.text if len(self.case.text) < 80 else self.case.text[:77] + "..."})
        d.update({k: v for k, v in self.extra.items() if k in ("site", "history", "name")})
        return d

    def replay(self, tier, seed):
        import peg
        d = {"property": self.prop, "formula": self.formula, "what": self.what, "tier": tier, "seed": seed}
        if self.case is not None:
            c = self.case
            d.update({"family": c.fam, "grammar_id": c.gid, "shape": c.g.meta.get("shape"),
                      "grammar": peg.grammar_text(c.g), "root": c.g.root, "input": c.text,
                      "input_codepoints": c.inp,
                      "expected": ({k: c.exp[k] for k in ("ok", "end", "tree", "errp", "errk") if k in c.exp}
                                   if c.exp else "beyond the model-checking bound: judged by monitors / variant comparison"),
                      "actual": c.act.get("res", {"crash": c.act.get("crash")})})
        d.update(self.extra)
        return d


# ----------------------------------------------------------------------------- predicates

def root_end(case):
    """consumed length as the property prescribes: end of the root's position range"""
    t = case.tree
    if isinstance(t, dict) and "position" in t and isinstance(t["position"], dict) and "$r" in t["position"]:
        return t["position"]["$r"][1]
    return None


def tracer_root_end(case):
    evs = case.act.get("events") or []
    if evs and evs[-1]["ev"] == "exit" and evs[-1].get("ok"):
        return evs[-1]["p"]
    return None


def p_crash(prop, case):
    if case.crashed:
        return Violation(prop, "NoPanic/Terminates", "the generated parser did not return: %s" % case.crash_msg, case)
    return None


def p_conforms(prop, case):
    """C01: acceptance and consumed length are those of the reference semantics"""
    e = case.exp
    if case.ok != e["ok"]:
        return Violation(prop, "Conforms", "accepted=%s but the grammar %s this input" % (
            case.ok, "matches" if e["ok"] else "does not match"), case)
    if e["ok"]:
        re_ = root_end(case)
        if re_ is not None and re_ != e["end"]:
            return Violation(prop, "Conforms", "consumed %d bytes, PEG semantics determines %d" % (re_, e["end"]), case)
        te = tracer_root_end(case)
        if te is not None and te != e["end"]:
            return Violation(prop, "Conforms", "root rule exited at %d, PEG semantics determines %d" % (te, e["end"]),
                             case)
    return None


def p_tree(prop, case, ranges=False):
    """C02: canonical trees equal (ranges masked unless asked)"""
    e = case.exp
    if not (case.ok and e["ok"]):
        return None
    a, x = case.tree, e["tree"]
    if not ranges:
        a, x = dbgparse.strip_ranges(a), dbgparse.strip_ranges(x)
    if a != x:
        return Violation(prop, "TreeExact", "tree differs: got %s expected %s" % (
            json.dumps(a, sort_keys=True)[:400], json.dumps(x, sort_keys=True)[:400]), case)
    return None


def hist_projection(events):
    """enter/exit sequence (rule, pos) as the tracer reports it"""
    out = []
    for e in events:
        if e["ev"] == "enter":
            out.append(("enter", e["r"], e["p"]))
        elif e["ev"] == "exit":
            out.append(("exit", e["p"]))
    return out


def drift(case):
    """strict conformance (diagnostic only): the tracer callback sequence equals the machine's"""
    exp = [("enter", h["r"], h["p"]) if h["ev"] == "enter" else ("exit", h["p"])
           for h in case.exp.get("hist", []) if h["ev"] in ("enter", "exit")]
    act = hist_projection(case.act.get("events") or [])
    return exp != act


# ----------------------------------------------------------------------------- evidence

def write_evidence(prop, tier, seed, level, coverage, wall, violations, assumptions):
    os.makedirs(os.path.join(vlib.VERIF, "evidence"), exist_ok=True)
    ev = {"property_id": prop, "tier": tier, "seed": seed, "level": level, "coverage": coverage,
          "assumptions": assumptions, "wall_s": round(wall, 1), "violations": violations}
    with open(os.path.join(vlib.VERIF, "evidence", prop + ".json"), "w") as f:
        json.dump(ev, f, indent=1, sort_keys=True)


def sample_cases(cases, n=3):
    out = []
    step = max(1, len(cases) // n)
    for c in cases[::step][:n]:
        out.append({"grammar": c.g.meta.get("shape", c.gid), "input": c.text,
                    "expected": {"ok": c.exp["ok"], "end": c.exp["end"], "errp": c.exp["errp"]},
                    "actual": c.act.get("res")})
    return out
