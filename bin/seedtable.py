#!/usr/bin/env python3
"""bin/seedtable.py: rewrites the table of DESIGN.md section 11 from seeded/*/meta.json"""
import glob
import json
import os
import re

HERE = os.path.dirname(os.path.dirname(os.path.abspath(__file__)))


def esc(s):
    return str(s).replace("|", "\\|").replace("\n", " ")


rows = []
for m in sorted(glob.glob(os.path.join(HERE, "seeded", "C*", "meta.json"))):
    j = json.load(open(m))
    sid = os.path.basename(os.path.dirname(m))
    rows.append("| `%s` | %s | %s | %s | %s |" % (sid, esc(j["change"]), esc(j["needs_to_manifest"]), esc("; ".join(j["detected_by"])),
                                                 esc(j.get("history", ""))))
p = os.path.join(HERE, "DESIGN.md")
s = open(p).read()
head = "| id | change | needs | caught by | history |\n|---|---|---|---|---|\n"
i = s.index(head) + len(head)
j = i
while s[j:j + 3] == "| `":
    j = s.index("\n", j) + 1
s = s[:i] + "\n".join(rows) + "\n" + s[j:]
open(p, "w").write(s)
print(len(rows), "rows")
