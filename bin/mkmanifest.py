#!/usr/bin/env python3
"""writes /verif/MANIFEST.json from the table below (one source of truth for the interface)"""
import json
import os
import sys

HERE = os.path.dirname(os.path.abspath(__file__))
sys.path.insert(0, os.path.join(HERE, "lib"))
VERIF = os.path.dirname(HERE)

MC = "model_checking"
T = {
    "C01": (MC, "TLC model checking of PegMachine vs PegDenot + replay of every behaviour in the real parsers",
            "TLC checks on every state of the small-step machine (one action per code template) that it conforms to the reference PEG semantics, never re-enters a rule at the same offset and that closures progress; every explored behaviour (grammar x input) is then replayed on the parser the real generator emits for that grammar and acceptance / consumed length compared. Exhaustive within the bound on both sides.",
            "small-scope hypothesis (enumerated operator / terminal families, random deep grammars seeded by VERIF_SEED, inputs exhaustive to length 3-4 plus seeded and grammar-directed longer ones); PegDenot is the reading of doc/syntax.md; rustc and the harness's Debug reader are trusted", "0a, 4 C01"),
    "C02": (MC, "TLC (TreeExact, CountSound) + replay into real parsers, trees compared through derive(Debug)",
            "The machine's frame discipline (what each failing construct discards) is checked by TLC against the reference semantics for every field-plumbing shape; the same cases run on the real generated parsers and the canonical trees are compared.", "Debug rendering is the observation channel; bounded shapes and inputs", "4 C02"),
    "C03": (MC, "TLC evaluation of TypeShapes (type table from the documented mapping; ArityMapping: implemented lattice = documented counts) + rustc on exact-type assertions against the real generated code",
            "TLC settles, for every expression of the enumerated family and without executing anything, that the implemented arity combination computes the documented plain / Option / Vec mapping, and prints the expected public types; the generator turns them into exact-type assertions (PhantomData<T> equality, exhaustive destructuring, wildcard-free match) that rustc checks against the code the real generator emits, under forbid(unsafe_code).", "rustc decides 'compiles'; TLC supplies enumeration and expectations; four field names colliding with template locals are known findings", "4 C03"),
    "C04": (MC, "TLC OnBoundary invariant on byte-level terminals + BoundaryMonitor trace validation of recorded advances (hooks H1/H2)",
            "Byte-level terminal definitions (ASCII fast paths included) are model-checked to keep the cursor on character boundaries over alphabets built to split sequences; every real cursor advance, failure offset, range and string is recorded and validated by TLC against BoundaryMonitor; H1 turns a violated unsafe precondition into a panic.", "memory safety proper is outside this technique; decided is the stated precondition discipline", "4 C04"),
    "C05": (MC, "TLC MemoInvisible/FreshCache over all memo subsets + real variant-vs-variant comparison + CacheMonitor trace validation",
            "For every subset of memoized rules TLC checks the cached machine against the cache-free reference; the real parsers of all variants must agree with each other and with the spec, in two call orders; recorded cache hits are validated against CacheMonitor (a hit must be explained by an entry of the same call).", "side-effect-free hooks as the property says; bounded shapes and inputs", "4 C05"),
    "C06": (MC, "TLC Packrat/PackratBound invariants + MemoTable (the cache protocol by itself; the protocol with an exit that skips the insert refuted; TLAPS proof in the thorough tier) + PackratMonitor trace validation of probe calls (public API only)",
            "Body evaluations are counted in every state of the model; on the real code they are observed through zero-length extern probes at the start of each memoized body and the recorded calls validated by TLC against PackratMonitor (second evaluation of a (rule, offset) pair is not an enabled action; global bound at the end).", "probe placement by the generator; bounded shapes, inputs include failing memoized rules and long nested inputs", "4 C06"),
    "C07": (MC, "TLC GrowthResult (machine vs growth fixpoint), LrProgress, NoReentry + LeftRecGrowth (the loop for any body: at most N + 2 evaluations, longest answer returned; the loop accepting equal length refuted; TLAPS proof in the thorough tier) + replay into real parsers with watchdog",
            "The Lr* actions mirror the generated growth loop; TLC compares the result with the growth fixpoint of the reference semantics and checks strict progress; real parsers are run on the same cases under a watchdog and acceptance, consumed length and left-nested tree compared.", "grammars inside the property's quantifier only; termination on real code is a watchdog", "4 C07"),
    "C08": (MC, "TLC WsPlacement (machine vs reference on whitespace alphabets) + replay into real parsers incl. ranges",
            "Whitespace skipping is a separate machine action at every atom call site; the reference skips per rule flag. All inputs over tokens, whitespace and near misses up to the bound, on model and real code.", "behavioural definition: an implementation hoisting skips but yielding the same results passes", "4 C08"),
    "C09": (MC, "TLC TreeExact with ranges + RangesNest on real trees",
            "Ranges are part of the values TLC compares; on the real trees exact equality with the spec's ranges, nesting, ordering and string = slice are evaluated.", "PegPosition::position() glue is exercised only through Debug of the position field", "4 C09"),
    "C10": (MC, "TLC FurthestFail/RealFailure/NoSentinel with ghost attempt sets + real error vs real attempts (hook H2)",
            "The machine threads the furthest-failure register exactly like ParseState; ghost attempt sets judge it in every failing behaviour. On the real code the reported position/detail is judged against the attempts recorded by H2.", "which attempts count (outside lookaheads, or handed out by a failing positive lookahead) is taken from the specification's run of the same case; FurthestFail is exact; the lattice lemma is also proved with TLAPS (spec/proofs, thorough tier)", "0a, 4 C10"),
    "C11": (MC, "TLC scanner machine vs the property's definition, every (text, position) replayed into PrettyParseError::from_parse_error",
            "A scanner machine (offset, line, column, line start) is model-checked against the property's own definition on every text and boundary position up to the bound; TLC's enumeration is turned into one implementation test per final state (location line, echoed line, caret column; with/without file name; colours off/on), plus seeded long random texts.", "Display output is parsed by the harness; trailing whitespace of the echoed line is trimmed by the renderer and ignored", "4 C11"),
    "C12": (MC, "TLC running PegMachine on grammar.ebnf itself (Meta, obtained by an independent reader) over laid-out grammar texts; trees compared with the real front end and the source AST; layout / escape families replayed behaviourally",
            "The front end is an instance of the specified machine: TLC checks that PegMachine instantiated with grammar.ebnf conforms to the reference semantics and computes, for every laid-out text, the structure the syntax denotes; the real front end's Debug tree must be identical and must be the AST the text was printed from; every repository grammar is read identically by an independent reader of doc/syntax.md; parsers generated from wildly spelled grammars and from every escape form behave as their AST says.", "trust in the independent reader is confined to grammar.ebnf and cross-checked; the layout printer embodies the documented syntax", "4 C12"),
    "C13": (MC, "TLC on grammar and inlined twin + real twin-vs-twin comparison of results, error positions and emitted type declarations",
            "Each grammar and its textual inlining are both model-checked against the reference and run on the real code; results, ranges, error positions and the generated public type declarations must agree between twins.", "inlining is done by the generator (gen/families.py inline)", "4 C13"),
    "C14": (MC, "TLC CheckExtern with mirrored oracle library + replay with recorded user-function calls",
            "User functions are a small library defined once in TLA+ and once in Rust; TLC checks machine vs reference under these oracles; real parsers must agree and every recorded extern call must be one the specification makes.", "the mirrored library (PegValues.tla / oracles.rs) is the oracle", "4 C14"),
    "C15": (MC, "TLC evaluation of CompileFront!Verdict (one predicate per documented restriction, include-cycle detection) + every case through the three doors in isolated processes",
            "The restriction table is a TLA+ predicate over grammars-as-data; TLC evaluates the verdict for every corpus grammar (and checks it against the generator's intent); each grammar goes through the library, Compile::run and peginator-cli in its own process (panic, stack overflow, hang, exit status, Result observed); seeded mutations, truncations and deep nestings check totality on arbitrary strings.", "totality on arbitrary strings is sampled, not enumerated; deep nesting (>= ~1500 levels) overflows the front end's stack: recorded as known findings", "4 C15"),
    "C17": (MC, "three bootstrap stages built for real and both front ends run on text corpora; the observation sequence validated by TLC against Bootstrap.tla",
            "Stage 1 is generated by the tree's generator from grammar.ebnf, a generator is built around it in a scratch copy and stage 2 generated; TLC accepts the recorded observations iff shipped = stage 1 = stage 2 (header aside) and every text (valid, invalid, mutated, all repository grammars) is read to the same Debug tree or the same error by the shipped and the regenerated front end. That both front ends denote what grammar.ebnf says is C12's Meta run.", "thin trace specification (equality of digests); rustfmt normalises layout", "4 C17"),
    "C18": (MC, "TLC over all histories of the BuildScript protocol (intended and implementation-shaped) + replay of every history against the real Compile; the intended protocol's properties also proved for unbounded histories with TLAPS (thorough tier)",
            "The file protocol {edit grammar, change prefix, delete destination, run} is model-checked for Fresh / Untouched / FailSafe in its intended form; the implementation-shaped form (run_on_single_file line by line) may deviate only in the two recorded findings (TLC must still find the flaw); every TLC history is replayed against the real Compile in a scratch directory (file / explicit destination / directory mode, formatting off and on) and the predicates are evaluated on the real files after every run.", "expected bytes come from a fresh library compilation; directory mode: one grammar file for the single-file histories plus the two-file model BuildScriptDir with every listing order; two known findings (known_findings.json)", "0a, 4 C18"),
    "C19": (MC, "TLC Balanced invariant + NestingMonitor trace validation of real ParseTracer callbacks; parse_with_trace vs parse",
            "depth is a natural number in the model, every exit path is a distinct action; the callback sequence of a recording ParseTracer is validated by TLC against NestingMonitor; results with RecTracer and the library's IndentedTracer must equal the plain result.", "stderr of IndentedTracer is discarded", "4 C19"),
    "C16": ("other", "byte comparison of the four routes' output (library, CLI, Compile::file, Compile::directory) across fresh processes, accepted by the Routes.tla trace specification (one inferred function F); peginate! compared behaviourally",
            "Decided by byte identity, as the design says honestly: every observation (route, grammar, settings, process, digest of the code after the route's framing) is validated by TLC against Routes.tla, which infers F from the first observation and rejects any later disagreement or wrong framing; the macro route is compiled next to the library route in the harness and the full outcomes compared on all inputs.", "thin specification: TLA+ contributes the composition rule only; macro expansion is compared by behaviour and Debug shape, not token by token", "4 C16"),
    "C20": (MC, "TLC over all interleavings of the Session model (per-call state; per-thread and shared caches refuted) + concurrent real parses vs sequential run (one reused input buffer per thread, every parse also judged against the history-free specification, a panicking and a re-entrant user function among the cases) + CacheMonitor on per-thread traces",
            "The architectural claim (all parse state lives in the call) is an explicit model whose interleavings TLC enumerates, together with the two designs a refactoring could slip into, which TLC must refute; on the real code the full outcome (result, tracer callbacks, cursor advances) of every case parsed from many threads in different orders must equal the sequential outcome, and each thread's cache hits are validated against CacheMonitor.", "real thread schedules are sampled, not enumerated (loom / shuttle are outside this technique family); SessionPure / FreshCache of the per-call design are also proved for any number of threads and calls with TLAPS (spec/proofs/SessionProofs.tla, thorough tier)", "4 C20"),
}


def main():
    import checks
    props = [json.loads(l) for l in open(os.path.join(VERIF, "properties.jsonl"))]
    mchecks = []
    na = []
    for p in props:
        pid = p["id"]
        if pid in checks.CHECKS and pid in T:
            cat, tech, text, note, ref = T[pid]
            mchecks.append({
                "property_id": pid,
                "quick_cmd": "bin/check %s --tier quick" % pid,
                "thorough_cmd": "bin/check %s --tier thorough" % pid,
                "evidence_file": "/verif/evidence/%s.json" % pid,
                "replay_cmd_template": "bin/check %s --replay {path}" % pid,
                "engine": "tlc+harness",
                "level_claimed": {"category": cat, "text": text, "design_ref": ref},
                "level_note": note,
                "technique": tech,
            })
        else:
            na.append({"property_id": pid, "reason": "check not built yet (work in progress, see DESIGN.md section 10)"})
    m = {
        "version": 1,
        "setup_cmd": "bin/setup",
        "hooks": {"guard": "peginator_verif",
                  "enable": "RUSTFLAGS='--cfg peginator_verif' (set by bin/lib/vlib.py cargo_env for every harness build)",
                  "baseline_off_cmd": "cd /repo && cargo test --workspace --no-fail-fast --offline",
                  "source_commits": ["056d66e", "d47c2fe"], "add_only": True},
        "engines": [
            {"name": "tlc+harness", "path": "/verif/bin/check",
             "serves_properties": [c["property_id"] for c in mchecks],
             "kind_free_text": "explicit TLA+ specification (spec/*.tla) model-checked with TLC; behaviours replayed into parsers generated by /repo's codegen (harness/), traces recorded from them validated by TLC against monitor specifications"}],
        "checks": mchecks,
        "notes": "see DESIGN.md; known_findings.json lists genuine defects (fixed ones suppress nothing)",
        "not_applicable": na,
    }
    json.dump(m, open(os.path.join(VERIF, "MANIFEST.json"), "w"), indent=1)
    print("MANIFEST: %d checks, %d not yet claimed" % (len(mchecks), len(na)))


if __name__ == "__main__":
    main()
