"""Corpus families (DESIGN 2.1).  family(name, tier, seed) -> list of peg.Grammar"""
import itertools
import random

from peg import (Call, CharRule, Choice, Clo, Eoi, ExternRule, Grammar, Inc, Lit, Neg, Opt, Pos, Range, Rule, Seq,
                 chars_of, well_formed)


def pick_alpha(g, prefer=(), cap=4, foreign="x"):
    cs = [c for c in prefer]
    for c in chars_of(g):
        if c not in cs:
            cs.append(c)
    cs = cs[: cap - 1]
    if foreign not in cs:
        cs.append(foreign)
    return cs


# ----------------------------------------------------------------------------- F-ops

def ops_atoms():
    return [
        ("a", lambda: Lit("a")),
        ("b", lambda: Lit("b")),
        ("ab", lambda: Lit("ab")),
        ("e", lambda: Lit("")),
        ("iA", lambda: Lit("A", ci=True)),
        ("iaB", lambda: Lit("aB", ci=True)),
        ("rab", lambda: Range("a", "b")),
        ("any", lambda: Call("char")),
        ("eoi", lambda: Eoi()),
        ("H", lambda: Call("H")),
        ("C", lambda: Call("C")),
    ]


UNARY = [("opt", lambda x: Opt(x)), ("clo", lambda x: Clo(x)), ("clop", lambda x: Clo(x, plus=True)),
         ("neg", lambda x: Neg(x)), ("pos", lambda x: Pos(x))]
BINARY = [("seq", lambda x, y: Seq(x, y)), ("cho", lambda x, y: Choice(x, y))]


def ops_exprs(depth, rnd, budget):
    """(name, thunk) expression trees up to the given depth; depth 1 complete, deeper sampled"""
    atoms = ops_atoms()
    level = {0: atoms}
    d1 = []
    for on, of in UNARY:
        for an, af in atoms:
            d1.append((on + "_" + an, (lambda of=of, af=af: of(af()))))
    for on, of in BINARY:
        for (an, af), (bn, bf) in itertools.product(atoms, atoms):
            d1.append((on + "_" + an + "_" + bn, (lambda of=of, af=af, bf=bf: of(af(), bf()))))
    level[1] = d1
    out = list(atoms) + d1
    for d in range(2, depth + 1):
        prev = level[d - 1]
        lower = [x for k in range(d - 1) for x in level[k]]
        cur = []
        for _ in range(budget):
            if rnd.random() < 0.45:
                on, of = rnd.choice(UNARY)
                an, af = rnd.choice(prev)
                cur.append((on + "(" + an + ")", (lambda of=of, af=af: of(af()))))
            else:
                on, of = rnd.choice(BINARY)
                an, af = rnd.choice(prev)
                bn, bf = rnd.choice(prev + lower)
                if rnd.random() < 0.5:
                    (an, af), (bn, bf) = (bn, bf), (an, af)
                cur.append((on + "(" + an + "," + bn + ")", (lambda of=of, af=af, bf=bf: of(af(), bf()))))
        level[d] = cur
        out += cur
    return out


def ops_grammar(gid, name, thunk, maxlen, skip=False):
    body = thunk()
    rules = [
        Rule("S", body, export=True, position=True, no_skip_ws=not skip),
        Rule("H", Seq(Lit("a"), Opt(Lit("b"))), no_skip_ws=not skip),
        CharRule("C", [("lit", "b"), ("range", "x", "y")]),
    ]
    g = Grammar(gid, rules, root="S", maxlen=maxlen, meta={"shape": name})
    g.alpha = pick_alpha(g, prefer=("a", "b"), cap=4)
    if any(isinstance(e, Lit) and e.ci for e in __import__("peg").sub_exprs(body)):
        g.alpha = ["a", "A", "b", "B"][:3] + ["x"]
    return g


def fam_ops(tier, seed):
    rnd = random.Random(seed * 7919 + 1)
    if tier == "quick":
        exprs = ops_exprs(2, rnd, 400)
        n_d1, n_d2, maxlen = 70, 60, 3
    else:
        exprs = ops_exprs(3, rnd, 3000)
        n_d1, n_d2, maxlen = 308, 1200, 4
    atoms = exprs[:11]
    d1 = exprs[11:11 + 55 + 242]
    deeper = exprs[11 + 55 + 242:]
    chosen = list(atoms)
    chosen += d1 if n_d1 >= len(d1) else (d1[:55] + rnd.sample(d1[55:], n_d1 - 55) if n_d1 > 55 else rnd.sample(d1, n_d1))
    rnd.shuffle(deeper)
    out = []
    seen = set()
    i = 0
    for name, th in chosen + deeper:
        if name in seen:
            continue
        seen.add(name)
        g = ops_grammar("ops_%04d" % i, name, th, maxlen)
        if not well_formed(g):
            continue
        out.append(g)
        i += 1
        if i >= len(chosen) + n_d2:
            break
    return out


FAMILIES = {"ops": fam_ops}


def family(name, tier, seed):
    return FAMILIES[name](tier, seed)
