"""Corpus families (DESIGN 2.1).  family(name, tier, seed) -> list of peg.Grammar"""
import itertools
import random

from peg import (Call, CharRule, Choice, Clo, Eoi, ExternRule, Grammar, Inc, Lit, Neg, Opt, Pos, Range, Rule, Seq,
                 chars_of, well_formed)


def pick_alpha(g, prefer=(), cap=4, foreign="x"):
    cs = [c for c in prefer]
    for c in chars_of(g):
        if c not in cs:
            cs.append(c)
    cs = cs[: cap - 1]
    if foreign not in cs:
        cs.append(foreign)
    return cs


# ----------------------------------------------------------------------------- F-ops

def ops_atoms():
    return [
        ("a", lambda: Lit("a")),
        ("b", lambda: Lit("b")),
        ("ab", lambda: Lit("ab")),
        ("e", lambda: Lit("")),
        ("iA", lambda: Lit("A", ci=True)),
        ("iaB", lambda: Lit("aB", ci=True)),
        ("rab", lambda: Range("a", "b")),
        ("any", lambda: Call("char")),
        ("eoi", lambda: Eoi()),
        ("H", lambda: Call("H")),
        ("C", lambda: Call("C")),
    ]


UNARY = [("opt", lambda x: Opt(x)), ("clo", lambda x: Clo(x)), ("clop", lambda x: Clo(x, plus=True)),
         ("neg", lambda x: Neg(x)), ("pos", lambda x: Pos(x))]
BINARY = [("seq", lambda x, y: Seq(x, y)), ("cho", lambda x, y: Choice(x, y))]


def ops_exprs(depth, rnd, budget):
    """(name, thunk) expression trees up to the given depth; depth 1 complete, deeper sampled"""
    atoms = ops_atoms()
    level = {0: atoms}
    d1 = []
    for on, of in UNARY:
        for an, af in atoms:
            d1.append((on + "_" + an, (lambda of=of, af=af: of(af()))))
    for on, of in BINARY:
        for (an, af), (bn, bf) in itertools.product(atoms, atoms):
            d1.append((on + "_" + an + "_" + bn, (lambda of=of, af=af, bf=bf: of(af(), bf()))))
    level[1] = d1
    out = list(atoms) + d1
    for d in range(2, depth + 1):
        prev = level[d - 1]
        lower = [x for k in range(d - 1) for x in level[k]]
        cur = []
        for _ in range(budget):
            if rnd.random() < 0.45:
                on, of = rnd.choice(UNARY)
                an, af = rnd.choice(prev)
                cur.append((on + "(" + an + ")", (lambda of=of, af=af: of(af()))))
            else:
                on, of = rnd.choice(BINARY)
                an, af = rnd.choice(prev)
                bn, bf = rnd.choice(prev + lower)
                if rnd.random() < 0.5:
                    (an, af), (bn, bf) = (bn, bf), (an, af)
                cur.append((on + "(" + an + "," + bn + ")", (lambda of=of, af=af, bf=bf: of(af(), bf()))))
        level[d] = cur
        out += cur
    return out


def ops_grammar(gid, name, thunk, maxlen, skip=False):
    body = thunk()
    rules = [
        Rule("S", body, export=True, position=True, no_skip_ws=not skip),
        Rule("H", Seq(Lit("a"), Opt(Lit("b"))), no_skip_ws=not skip),
        CharRule("C", [("lit", "b"), ("range", "x", "y")]),
    ]
    g = Grammar(gid, rules, root="S", maxlen=maxlen, meta={"shape": name})
    g.alpha = pick_alpha(g, prefer=("a", "b"), cap=4)
    if any(isinstance(e, Lit) and e.ci for e in __import__("peg").sub_exprs(body)):
        g.alpha = ["a", "A", "b", "B"][:3] + ["x"]
    return g


def fam_ops(tier, seed):
    rnd = random.Random(seed * 7919 + 1)
    if tier == "quick":
        exprs = ops_exprs(2, rnd, 400)
        n_d1, n_d2, maxlen = 70, 60, 3
    else:
        exprs = ops_exprs(3, rnd, 3000)
        n_d1, n_d2, maxlen = 308, 800, 4
    atoms = exprs[:11]
    d1 = exprs[11:11 + 55 + 242]
    deeper = exprs[11 + 55 + 242:]
    uu = []
    for (on, of), (in_, if_) in itertools.product(UNARY, UNARY):
        for an, af in (atoms[0], atoms[2], atoms[10], atoms[5]):
            uu.append(("%s(%s_%s)" % (on, in_, an), (lambda of=of, if_=if_, af=af: of(if_(af())))))
    # lookaheads whose body gets further than what follows them (the inner failures must be dropped)
    hand = [
        ("neg_multi_then_fail", lambda: Seq(Neg(Seq(Lit("a"), Lit("a"), Lit("b"))), Call("char"), Lit("x"))),
        ("pos_opt_then_fail", lambda: Seq(Pos(Seq(Lit("a"), Lit("a"), Opt(Lit("b")))), Lit("a"), Lit("x"))),
        ("neg_clo_then_fail", lambda: Seq(Neg(Seq(Clo(Lit("a")), Lit("b"))), Lit("a"), Lit("x"))),
        ("neg_in_clo_then_fail", lambda: Seq(Clo(Seq(Neg(Seq(Lit("a"), Lit("b"))), Call("char"))), Lit("x"))),
        ("pos_fail_inner_further", lambda: Choice(Seq(Pos(Seq(Lit("a"), Lit("a"), Lit("b"))), Lit("a")), Lit("b"))),
        ("nested_la_then_fail", lambda: Seq(Neg(Pos(Seq(Lit("a"), Lit("a"), Lit("b")))), Lit("a"), Lit("x"))),
    ]
    # ordered choice between alternatives whose leading literals are prefixes of each other: the earlier one may
    # match its literal and still fail (or succeed without covering what the later one would have covered)
    tails = [("neg_b", lambda: Neg(Lit("b"))), ("pos_b", lambda: Pos(Lit("b"))), ("opt_b", lambda: Opt(Lit("b"))),
             ("clo_b", lambda: Clo(Lit("b"))), ("eoi", lambda: Eoi()), ("neg_eoi", lambda: Neg(Eoi())), ("e", lambda: Lit("")),
             ("neg_b_opt_a", lambda: Seq(Neg(Lit("b")), Opt(Lit("a")))), ("pos_any", lambda: Pos(Call("char")))]
    for tn, tf in tails:
        hand.append(("prefix_choice_%s" % tn, (lambda tf=tf: Choice(Seq(Lit("a"), tf()), Lit("ab")))))
        hand.append(("prefix_choice_rev_%s" % tn, (lambda tf=tf: Choice(Seq(Lit("ab"), tf()), Lit("a")))))
        hand.append(("prefix_choice3_%s" % tn, (lambda tf=tf: Seq(Choice(Seq(Lit("a"), tf()), Seq(Lit("ab"), tf()), Lit("abb")), Opt(Lit("b"))))))
        hand.append(("prefix_choice_in_clo_%s" % tn, (lambda tf=tf: Seq(Clo(Choice(Seq(Lit("a"), tf()), Lit("ab"))), Opt(Lit("b"))))))
    # every nesting unary(binary(unary(atom), atom)) / binary(unary(binary(atom, atom)), atom) over three atoms:
    # a seeded sample (400 in the thorough tier, 70 in the quick tier: other ones for every VERIF_SEED)
    small = [("a", lambda: Lit("a")), ("ab", lambda: Lit("ab")), ("eoi", lambda: Eoi())]
    nest3 = []
    for (o1, f1), (ob, fb), (o2, f2) in itertools.product(UNARY, BINARY, UNARY):
        for (an, af), (bn, bf) in itertools.product(small, small):
            for swap in (False, True):
                nm = "n3_%s(%s(%s_%s,%s)%s)" % (o1, ob, o2, an, bn, "r" if swap else "")
                nest3.append((nm, (lambda f1=f1, fb=fb, f2=f2, af=af, bf=bf, swap=swap:
                                   f1(fb(bf(), f2(af())) if swap else fb(f2(af()), bf())))))
                nm = "n3_%s(%s(%s_%s_%s),%s)%s" % (ob, o1, ob, an, bn, an, "r" if swap else "")
                nest3.append((nm, (lambda f1=f1, fb=fb, af=af, bf=bf, swap=swap:
                                   fb(af(), f1(fb(af(), bf()))) if swap else fb(f1(fb(af(), bf())), af()))))
    hand += rnd.sample(nest3, 400 if tier != "quick" else 70)    # (all of them: 3600 grammars, an hour per check that uses F-ops)
    chosen = list(atoms) + hand + (uu if tier != "quick" else uu[::2] + uu[1::4])
    chosen += d1 if n_d1 >= len(d1) else (d1[:55] + rnd.sample(d1[55:], n_d1 - 55) if n_d1 > 55 else rnd.sample(d1, n_d1))
    rnd.shuffle(deeper)
    out = []
    seen = set()
    i = 0
    for name, th in chosen + deeper:
        if name in seen:
            continue
        seen.add(name)
        g = ops_grammar("ops_%04d" % i, name, th, maxlen)
        if not well_formed(g):
            continue
        add_extras(g, rnd, 8 if tier == "quick" else 40, 4, 8)
        out.append(g)
        i += 1
        if i >= len(chosen) + n_d2:
            break
    return out


FAMILIES = {"ops": fam_ops}


def family(name, tier, seed):
    return FAMILIES[name](tier, seed)


# ----------------------------------------------------------------------------- helpers

def sample(rnd, xs, n):
    xs = list(xs)
    if n >= len(xs):
        return xs
    return rnd.sample(xs, n)


def sentence(g, rnd, e, depth=0, big=0):
    """a random string derived from expression e (ignores lookaheads, checks and whitespace):
    grammar-directed inputs reach deep structure that uniformly random strings rarely do.
    `big`: number of iterations of the closures met before any rule call or closure body is entered"""
    if depth > 6:
        return ""
    if isinstance(e, Seq):
        return "".join(sentence(g, rnd, p, depth, big) for p in e.parts)
    if isinstance(e, Choice):
        return sentence(g, rnd, rnd.choice(e.alts), depth, big)
    if isinstance(e, Opt):
        return sentence(g, rnd, e.b, depth, big) if (big or rnd.random() < 0.6) else ""
    if isinstance(e, Clo):
        n = rnd.choice([0, 1, 1, 2, 2, 3]) if not e.plus else rnd.choice([1, 1, 2, 3])
        if big and depth == 0:
            n = big
        return "".join(sentence(g, rnd, e.b, depth + 1) for _ in range(n))
    if isinstance(e, (Neg, Pos, Eoi)):
        return ""
    if isinstance(e, Lit):
        if e.s is None:
            return ""
        return "".join(c.swapcase() if e.ci and rnd.random() < 0.5 else c for c in e.s)
    if isinstance(e, Range):
        if isinstance(e.lo, str) and isinstance(e.hi, str) and e.lo <= e.hi:
            cands = [c for c in (g.alpha or []) if e.lo <= c <= e.hi]
            return rnd.choice(cands) if cands else e.lo
        return ""
    if isinstance(e, Inc):
        r = g.rule(e.rule)
        return sentence(g, rnd, r.body, depth + 1) if r is not None and r.kind == "rule" else ""
    if isinstance(e, Call):
        r = g.rule(e.rule)
        if r is None:
            return rnd.choice(g.alpha) if e.rule == "char" and g.alpha else (" " if e.rule == "Whitespace" else "")
        if r.kind == "rule":
            return sentence(g, rnd, r.body, depth + 1)
        if r.kind == "char":
            p = rnd.choice(r.parts)
            if p[0] == "lit":
                return p[1] if isinstance(p[1], str) else ""
            if p[0] == "range":
                return p[1] if isinstance(p[1], str) else ""
            return sentence(g, rnd, Call(p[1]), depth + 1)
        o = r.fn.get("o")
        return {"digits": "1", "bang": "1", "two": "".join(rnd.choice(g.alpha) for _ in range(2)) if g.alpha else "", "upper": "B"}.get(o, "")
    return ""


def add_long(g, rnd, big=270, cap=1500):
    """one input in which the closures of the root rule's own body iterate `big` times (more than 255 values
    in one Vec, more than 255 iterations): run on the real parsers and model-checked in lean mode"""
    t = sentence(g, rnd, g.rule(g.root).body, 0, big)
    if 256 <= len(t) <= cap and all(c in g.alpha for c in t):
        g.real_extra.append(list(t))
        return True
    return False


def add_extras(g, rnd, n, lo, hi):
    """seeded inputs beyond the exhaustive bound: n uniformly random strings over the alphabet and n
    strings derived from the grammar itself (some of them with one character changed)"""
    for _ in range(n):
        g.extra.append([rnd.choice(g.alpha) for _ in range(rnd.randint(lo, hi))])
    root = g.rule(g.root)
    skip = any(r.kind == "rule" and not r.no_skip_ws for r in g.rules)
    for _ in range(n):
        t = sentence(g, rnd, root.body)
        if len(t) > 14:
            t = t[:14]
        cs = list(t)
        k = rnd.random()
        if cs and k < 0.25:
            cs[rnd.randrange(len(cs))] = rnd.choice(g.alpha)
        elif k < 0.4:
            cs.insert(rnd.randint(0, len(cs)), rnd.choice(g.alpha))
        elif skip and k < 0.6 and " " in g.alpha:
            cs.insert(rnd.randint(0, len(cs)), " ")
        if all(c in g.alpha for c in cs):
            g.extra.append(cs)
    return g


def finish(gs):
    """drop ill-formed grammars, renumber"""
    return [g for g in gs if well_formed(g)]


# ----------------------------------------------------------------------------- F-fields

def field_atoms():
    return [
        ("xA", lambda: Call("A", "x")),
        ("xB", lambda: Call("B", "x")),
        ("yA", lambda: Call("A", "y")),
        ("xT", lambda: Call("T", "x")),
        ("xD", lambda: Call("D", "x")),
        ("yc", lambda: Call("char", "y")),
        ("xbA", lambda: Call("A", "x", boxed=True)),
        ("A", lambda: Call("A")),
        ("c", lambda: Lit("c")),
    ]


F_UNARY = [("opt", lambda x: Opt(x)), ("clo", lambda x: Clo(x)), ("clop", lambda x: Clo(x, plus=True))]


def field_exprs(rnd, n2, n3):
    atoms = field_atoms()
    d1 = []
    for on, of in F_UNARY:
        for an, af in atoms:
            d1.append((on + "_" + an, (lambda of=of, af=af: of(af()))))
    for on, of in BINARY:
        for (an, af), (bn, bf) in itertools.product(atoms, atoms):
            d1.append((on + "_" + an + "_" + bn, (lambda of=of, af=af, bf=bf: of(af(), bf()))))

    def deeper(prev, lower, n):
        cur = []
        for _ in range(n):
            if rnd.random() < 0.4:
                on, of = rnd.choice(F_UNARY)
                an, af = rnd.choice(prev)
                cur.append((on + "(" + an + ")", (lambda of=of, af=af: of(af()))))
            else:
                on, of = rnd.choice(BINARY)
                an, af = rnd.choice(prev)
                bn, bf = rnd.choice(prev + lower)
                if rnd.random() < 0.5:
                    (an, af), (bn, bf) = (bn, bf), (an, af)
                cur.append((on + "(" + an + "," + bn + ")", (lambda of=of, af=af, bf=bf: of(af(), bf()))))
        return cur

    d2 = deeper(d1, atoms, n2)
    d3 = deeper(d2, atoms + d1, n3)
    return atoms, d1, d2, d3


def fields_rules(body, root_kw=None):
    kw = dict(export=True, no_skip_ws=True)
    kw.update(root_kw or {})
    return [
        Rule("S", body, **kw),
        Rule("A", Lit("a"), no_skip_ws=True),
        Rule("B", Seq(Lit("b"), Opt(Lit("b"))), no_skip_ws=True),
        Rule("T", Clo(Choice(Lit("a"), Lit("b")), plus=True), string=True, no_skip_ws=True),
        Rule("D", Choice(Lit("a"), Lit("b")), string=True, no_skip_ws=True),
        Rule("T2", Seq(Clo(Lit("a"), plus=True), Opt(Seq(Lit("b"), Clo(Lit("a"), plus=True)))), string=True, no_skip_ws=True),
        Rule("Z", Clo(Lit("b")), string=True, no_skip_ws=True),                 # matches nothing as well
        Rule("ZS", Seq(Opt(Call("A", "p")), Clo(Call("D", "q"))), no_skip_ws=True),
    ]


def has_field(e):
    import peg
    return any(isinstance(x, Call) and x.field for x in peg.sub_exprs(e))


def fam_fields(tier, seed):
    rnd = random.Random(seed * 7919 + 2)
    atoms, d1, d2, d3 = field_exprs(rnd, 600, 600) if tier == "quick" else field_exprs(rnd, 6000, 6000)
    n1, n2, n3, maxlen = (70, 50, 30, 3) if tier == "quick" else (len(d1), 900, 600, 4)
    chosen = atoms[:6] + sample(rnd, d1, n1) + sample(rnd, d2, n2) + sample(rnd, d3, n3)
    # handwritten shapes the design names
    hand = [
        ("half_opt_then_again", lambda: Seq(Opt(Seq(Call("A", "x"), Lit("c"))), Call("A", "x"))),
        ("two_types_two_arms", lambda: Choice(Call("A", "x"), Call("B", "x"))),
        ("clo_multi_field_seq", lambda: Clo(Seq(Call("A", "x"), Call("B", "y")))),
        ("arm_lacks_field", lambda: Choice(Seq(Call("A", "x"), Call("B", "y")), Call("B", "y"), Lit("c"))),
        ("vec_of_enum", lambda: Clo(Choice(Call("A", "x"), Call("B", "x"), Call("char", "x")))),
        ("opt_in_clo", lambda: Clo(Seq(Opt(Call("A", "x")), Call("B", "y")))),
        ("same_field_thrice", lambda: Seq(Call("A", "x"), Opt(Call("A", "x")), Call("A", "x"))),
        ("boxed_mixed", lambda: Choice(Call("A", "x", boxed=True), Seq(Call("B", "x"), Call("A", "x")))),
        ("lookahead_then_field", lambda: Seq(Pos(Call("A")), Call("A", "x"), Neg(Call("A")))),
        ("string_inner_failure", lambda: Seq(Call("T2", "x"), Lit("c"), Opt(Call("D", "y")))),
        ("seq_tail_rebind_opt", lambda: Seq(Opt(Seq(Call("D", "x"), Lit("c"), Call("T", "y"))), Clo(Seq(Lit("c"), Call("D", "x"), Call("T", "y"))))),
        ("seq_tail_rebind_group", lambda: Seq(Lit("c"), Choice(Seq(Call("D", "x"), Lit("c"), Call("D", "y")), Seq(Call("D", "y"), Call("D", "x"))),
                                               Clo(Seq(Lit("c"), Call("D", "y"))))),
        ("seq_tail_rebind_nested", lambda: Clo(Seq(Lit("c"), Seq(Call("D", "x"), Opt(Call("D", "y"))), Clo(Call("D", "y"))))),
        ("choice_fields_reordered", lambda: Choice(Seq(Lit("c"), Call("D", "x")), Seq(Call("T", "y"), Lit("c")),
                                                   Seq(Call("A", "z"), Call("T", "y"), Call("D", "x")),
                                                   Seq(Call("B", "w"), Call("D", "x"), Call("A", "z")))),
        ("choice_lists_reordered", lambda: Choice(Seq(Clo(Call("D", "x")), Lit("c"), Clo(Call("T", "y"))),
                                                  Seq(Lit("c"), Lit("c"), Clo(Call("T", "y")), Lit("c"), Clo(Call("D", "x"))))),
        ("nested_clo_order", lambda: Clo(Seq(Lit("c"), Clo(Call("D", "x"))))),
        ("nested_clo_two_fields", lambda: Clo(Seq(Call("D", "y"), Lit("c"), Clo(Call("D", "x"))))),
        ("clo_opt_extra_value", lambda: Clo(Seq(Call("D", "x"), Opt(Seq(Lit("c"), Call("D", "x"))), Lit("c")))),
        ("clo_then_same_field", lambda: Seq(Clo(Seq(Call("D", "x"), Lit("c"))), Call("D", "x"), Opt(Call("D", "x")))),
        ("opt_two_fields_partial", lambda: Seq(Opt(Seq(Call("A", "x"), Lit("c"), Call("B", "y"))), Lit("c"))),
        ("opt_three_fields_partial", lambda: Seq(Opt(Seq(Call("A", "x"), Call("B", "y"), Call("A", "z"), Lit("c"))), Call("A", "w"))),
        ("clo_two_fields_partial", lambda: Seq(Clo(Seq(Call("A", "x"), Call("B", "y"), Lit("c"))), Lit("a"))),
        ("choice_two_fields_partial", lambda: Choice(Seq(Call("A", "x"), Call("B", "y"), Lit("c")), Seq(Call("A", "x"), Lit("c")))),
        ("choice_backtrack_field", lambda: Choice(Seq(Call("A", "x"), Lit("c")), Seq(Call("A", "y"), Call("B", "x")))),
        # a match of zero bytes is a match: the field holds the (empty) value, the optional around it was taken
        ("opt_nullable_string_field", lambda: Seq(Opt(Call("Z", "x")), Lit("c"), Opt(Call("Z", "y")))),
        ("opt_nullable_struct_field", lambda: Seq(Lit("c"), Opt(Call("ZS", "x")), Lit("c"))),
        ("opt_two_nullable_fields", lambda: Seq(Opt(Seq(Call("Z", "x"), Call("ZS", "y"))), Lit("c"))),
        ("opt_nested_nullable", lambda: Seq(Opt(Seq(Call("Z", "x"), Opt(Call("ZS", "y")))), Opt(Lit("c")))),
        ("choice_nullable_field_alt", lambda: Seq(Choice(Seq(Lit("c"), Call("Z", "x")), Call("ZS", "y")), Opt(Lit("c")))),
        # an empty alternative always matches: written first it makes the later ones unreachable
        ("leading_empty_alt", lambda: Seq(Choice(Seq(), Call("A", "x")), Call("B", "y"))),
        ("leading_empty_alt_top", lambda: Choice(Seq(), Call("A", "x"), Call("B", "x"))),
        ("middle_empty_alt", lambda: Seq(Choice(Call("A", "x"), Seq(), Call("B", "x")), Opt(Call("B", "y")))),
        ("trailing_empty_alt_in_clo", lambda: Seq(Clo(Seq(Choice(Call("A", "x"), Seq()), Lit("c"))), Opt(Choice(Seq(), Call("B", "y"))))),
    ]
    out = []
    seen = set()
    for name, th in hand + chosen:
        if name in seen:
            continue
        seen.add(name)
        body = th()
        if not has_field(body):
            continue
        g = Grammar("fld_%04d" % len(out), fields_rules(body), root="S", maxlen=maxlen, meta={"shape": name})
        g.alpha = ["a", "b", "c"]
        add_extras(g, rnd, 12 if tier == "quick" else 60, 4, 8)
        if (name, th) in hand or tier != "quick" or len(out) % 5 == 0:
            add_long(g, rnd)
        if well_formed(g):
            out.append(g)
    # override rules: simple, optional, enum, through a prefix
    ov = [
        ("ov_simple", Seq(Lit("c"), Call("A", "@"))),
        ("ov_enum", Choice(Call("A", "@"), Call("B", "@"), Seq(Lit("c"), Call("T", "@")))),
        ("ov_enum_boxed", Choice(Call("A", "@", boxed=True), Call("B", "@"))),
        ("ov_opt", Opt(Call("A", "@"))),
        ("ov_vec", Clo(Call("B", "@"))),
        ("ov_char", Choice(Seq(Lit("c"), Call("char", "@")), Call("char", "@"))),
        ("ov_string", Call("T", "@")),
    ]
    # @string rules take the whole matched text whatever fields or overrides their body mentions
    sov = [
        ("string_ov_string_wrapped", Seq(Lit("c"), Call("T", "@"), Lit("c"))),
        ("string_ov_string_prefix", Seq(Lit("c"), Call("D", "@"))),
        ("string_ov_string_suffix_opt", Seq(Call("D", "@"), Opt(Lit("c")))),
        ("string_ov_rule_wrapped", Seq(Lit("c"), Call("A", "@"), Clo(Lit("c")))),
        ("string_with_fields", Seq(Call("A", "x"), Clo(Call("D", "y")), Lit("c"))),
        ("string_ov_choice", Choice(Seq(Lit("c"), Call("D", "@")), Seq(Call("D", "@"), Lit("c"), Lit("c")))),
    ]
    for name, body in ov + sov:
        rules = [Rule("S", Seq(Call("O", "r"), Opt(Call("O", "q"))), export=True, no_skip_ws=True),
                 Rule("O", body, no_skip_ws=True, string=(name, body) in sov)] + fields_rules(Lit("a"))[1:]
        g = Grammar("fld_%04d" % len(out), rules, root="S", maxlen=maxlen, meta={"shape": name})
        g.alpha = ["a", "b", "c"]
        if well_formed(g):
            out.append(g)
    return out


# ----------------------------------------------------------------------------- F-ws

def fam_ws(tier, seed):
    rnd = random.Random(seed * 7919 + 3)
    maxlen = 4 if tier == "quick" else 5
    shapes = []

    def mk(name, rules, alpha=("a", "b", " ", "\n", "\x0b")):
        shapes.append((name, rules, list(alpha)))

    tok = lambda: Lit("a")  # noqa: E731
    # N: non-skipping callee, K: skipping callee
    callee = [Rule("N", Seq(Lit("a"), Lit("b")), no_skip_ws=True), Rule("K", Seq(Lit("a"), Lit("b")))]
    bodies = [
        ("lit_lit", Seq(Lit("a"), Lit("b"))),
        ("lit_eoi", Seq(Lit("a"), Eoi())),
        ("str_eoi", Seq(Lit("ab"), Eoi())),
        ("range_range", Seq(Range("a", "b"), Range("a", "b"))),
        ("callN", Seq(Call("N", "n"), Lit("a"))),
        ("callK", Seq(Call("K", "k"), Lit("a"))),
        ("incN", Seq(Inc("N"), Lit("a"))),
        ("incK", Seq(Inc("K"), Lit("a"))),
        ("opt_back", Seq(Opt(Seq(Lit("a"), Lit("b"))), Lit("a"), Eoi())),
        ("clo", Seq(Clo(Lit("a")), Lit("b"))),
        ("neg", Seq(Neg(Lit("b")), Call("char", "c"))),
        ("pos", Seq(Pos(Lit("a")), Lit("a"), Lit("b"))),
        ("char_field", Seq(Call("char", "c"), Call("char", "d"))),
        ("string_rule", Seq(Call("T", "t"), Lit("b"))),
        ("stringK_rule", Seq(Call("U", "t"), Eoi())),
        ("charclass", Seq(Call("C", "c"), Call("C", "d"))),
        ("ci", Seq(Lit("A", ci=True), Lit("ab", ci=True))),
        ("explicit_ws", Seq(Lit("a"), Call("Whitespace"), Lit("b"))),
        ("empty_lit", Seq(Lit(""), Lit("a"))),
        ("empty_lit_last", Seq(Lit("a"), Lit(""))),
        ("empty_lit_last_in_string_rule", Seq(Call("VE", "v"), Opt(Lit("b")))),
        ("empty_ci_lit_between", Seq(Lit("a"), Lit("", ci=True), Call("N", "n"))),
        ("choice_ws", Choice(Seq(Lit("a"), Lit("a")), Seq(Lit("a"), Lit("b")))),
        ("eoi_only", Eoi()),
        ("choice_opt_alt", Seq(Lit("a"), Choice(Lit("b"), Opt(Lit("a"))), Opt(Call("N", "n")))),
        ("choice_empty_alt", Seq(Lit("a"), Choice(Lit("b"), Lit("a"), Seq()), Call("T", "t"))),
        ("choice_opt_alt_in_string", Seq(Call("V", "v"), Opt(Call("V", "w")))),
        ("choice_clo_alt", Seq(Lit("a"), Choice(Lit("b"), Clo(Lit("a"))), Eoi())),
        # whitespace before a call is the caller's, also when the callee then matches nothing
        ("call_nullable_last", Seq(Lit("a"), Call("Z", "z"))),
        ("call_nullable_mid", Seq(Lit("a"), Call("Z", "z"), Lit("a"))),
        ("call_nullable_noskip_callee", Seq(Lit("a"), Call("ZN", "z"), Opt(Lit("a")))),
        ("call_nullable_through_skipping_rule", Seq(Call("KK", "k"), Lit("a"))),
        ("call_nullable_in_clo", Seq(Clo(Seq(Lit("a"), Call("Z", "z"))), Eoi())),
        ("call_nullable_override", Seq(Call("ZO", "o"), Call("ZO", "p"), Eoi())),
    ]
    extra = [Rule("VE", Seq(Lit("a"), Lit("")), string=True, position=True),
             Rule("Z", Clo(Call("F", "fs"))), Rule("ZN", Clo(Call("F", "fs")), no_skip_ws=True), Rule("F", Lit("b"), position=True),
             Rule("KK", Seq(Lit("a"), Call("Z", "z")), position=True), Rule("ZO", Opt(Call("F", "@"))),
             Rule("V", Seq(Lit("a"), Choice(Lit("b"), Opt(Lit("a")))), string=True, position=True),
             Rule("T", Clo(Range("a", "b"), plus=True), string=True, no_skip_ws=True),
             Rule("U", Clo(Range("a", "b"), plus=True), string=True),
             CharRule("C", [("range", "a", "b")])]
    for bn, body in bodies:
        for skip in (True, False):
            mk("%s_%s" % (bn, "skip" if skip else "noskip"),
               [Rule("S", body, export=True, position=True, no_skip_ws=not skip)] + callee + extra)
    # grammar-defined Whitespace (with comments): shadows the built-in
    wsrule = Rule("Whitespace", Clo(Choice(Lit(" "), Seq(Lit("#"), Clo(Seq(Neg(Lit("\n")), Call("char"))), Lit("\n")))),
                  no_skip_ws=True)
    for bn, body in bodies[:12]:
        if bn in ("explicit_ws",):
            continue
        mk("userws_" + bn, [Rule("S", body, export=True, position=True)] + callee + extra + [wsrule],
           alpha=("a", "b", " ", "#", "\n"))
    # a Whitespace rule that can fail: one or more dots
    dots = Rule("Whitespace", Clo(Lit("."), plus=True), no_skip_ws=True)
    for bn, body in bodies[:4]:
        mk("dotws_" + bn, [Rule("S", body, export=True, position=True)] + callee + extra + [dots],
           alpha=("a", "b", ".", " "))
    # near misses
    for bn, body in bodies[:3]:
        mk("nbsp_" + bn, [Rule("S", body, export=True, position=True)] + callee + extra,
           alpha=("a", "b", " ", "\t", "\r"))
        mk("ff_" + bn, [Rule("S", body, export=True, position=True)] + callee + extra,
           alpha=("a", "b", "\x0c", " "))
    keep = shapes
    out = []
    for name, rules, alpha in keep:
        g = Grammar("ws_%04d" % len(out), rules, root="S", maxlen=maxlen if len(alpha) <= 4 else maxlen - 1 + (tier != "quick"),
                    meta={"shape": name})
        g.alpha = alpha
        g.maxlen = (maxlen if len(alpha) <= 4 else 3) if tier != "quick" else (3 if len(alpha) <= 4 else 3)
        add_extras(g, rnd, 10 if tier == "quick" else 60, 4, 7)
        # long whitespace runs (real runs only): hidden state in the whitespace skipper would show here
        if " " in alpha and name.split("_")[0] not in ("dotws",):
            toks = [c for c in alpha if c not in (" ", "\n", "\t", "\r", "\x0b", "\x0c", "#")][:2] or ["a"]
            for k in (4, 5, 7, 9):
                g.real_extra.append(list(toks[0] + " " * k + toks[-1] + " " * (k + 1) + toks[0]))
                g.real_extra.append(list(" " * (k + 2) + toks[0] + toks[-1]))
            if name.split("_")[0] not in ("userws",):
                # long gaps with one character in them that is NOT whitespace although it is a control character (or
                # looks like a blank), at every alignment of a 4 / 8 / 16-byte window
                for nearmiss in ("\x0b", "\x00", "\x08", "\x1f", "\x1c", "\x7f"):
                    for off in (0, 3, 4, 7, 8, 15):
                        g.real_extra.append(list(toks[0] + " " * off + nearmiss + "\n \t\r" * 3 + toks[-1]))
                g.real_extra.append(list(toks[0] + " \t\n\r\x0c" * 5 + toks[-1]))
        if well_formed(g):
            out.append(g)
    return out


# ----------------------------------------------------------------------------- F-memo

def memo_bases():
    """(name, rules, alpha, memoizable rule names)"""
    out = []
    out.append(("shared_prefix",
                [Rule("S", Choice(Seq(Call("E", "e"), Lit("x")), Seq(Call("E", "e"), Lit("y")), Call("E", "e")),
                      export=True, no_skip_ws=True),
                 Rule("E", Choice(Seq(Lit("a"), Call("E", "n", boxed=True), Lit("b")), Lit("a")), no_skip_ws=True)],
                ["a", "b", "x", "y"], ["S", "E"]))
    out.append(("failing_prefix",
                [Rule("S", Choice(Seq(Call("E", "e"), Lit("x")), Seq(Call("E", "e"), Lit("y")), Lit("b")),
                      export=True, no_skip_ws=True),
                 Rule("E", Seq(Lit("a"), Call("F", "f"), Lit("a")), no_skip_ws=True),
                 Rule("F", Clo(Lit("b")), string=True, no_skip_ws=True)],
                ["a", "b", "x"], ["S", "E", "F"]))
    out.append(("nested_exp",
                [Rule("S", Seq(Call("E", "e"), Eoi()), export=True, no_skip_ws=True),
                 Rule("E", Choice(Seq(Lit("a"), Call("E", "l", boxed=True), Lit("b")),
                                  Seq(Lit("a"), Call("E", "l", boxed=True), Lit("c")),
                                  Seq()), no_skip_ws=True)],
                ["a", "b", "c"], ["S", "E"]))
    out.append(("lookahead_reuse",
                [Rule("S", Seq(Pos(Seq(Call("T"), Lit("x"))), Call("T", "t"), Opt(Lit("x"))), export=True, no_skip_ws=True),
                 Rule("T", Clo(Choice(Lit("a"), Lit("b")), plus=True), string=True, no_skip_ws=True)],
                ["a", "b", "x"], ["S", "T"]))
    out.append(("ws_memo",
                [Rule("S", Choice(Seq(Call("W", "w"), Lit("x")), Seq(Call("W", "w"), Call("W", "w"))), export=True),
                 Rule("W", Seq(Lit("a"), Opt(Lit("b"))), position=True)],
                ["a", "b", " ", "x"], ["S", "W"]))
    out.append(("three_level",
                [Rule("S", Choice(Seq(Call("P", "p"), Lit("x")), Seq(Call("P", "p"), Lit("y"))), export=True, no_skip_ws=True),
                 Rule("P", Choice(Seq(Call("Q", "q"), Lit("a")), Call("Q", "q")), no_skip_ws=True),
                 Rule("Q", Choice(Seq(Lit("a"), Lit("a")), Lit("a")), no_skip_ws=True)],
                ["a", "x", "y"], ["S", "P", "Q"]))
    out.append(("memo_in_closure",
                [Rule("S", Seq(Clo(Choice(Seq(Call("I", "i"), Lit("x")), Seq(Call("I", "i"), Lit("y")))), Eoi()),
                      export=True, no_skip_ws=True),
                 Rule("I", Clo(Lit("a"), plus=True), string=True, no_skip_ws=True)],
                ["a", "x", "y"], ["S", "I"]))
    out.append(("override_memo",
                [Rule("S", Choice(Seq(Call("O", "o"), Lit("x")), Call("O", "o")), export=True, no_skip_ws=True),
                 Rule("O", Choice(Call("A", "@"), Call("B", "@")), no_skip_ws=True),
                 Rule("A", Seq(Lit("a"), Lit("a")), no_skip_ws=True),
                 Rule("B", Lit("a"), no_skip_ws=True)],
                ["a", "x", "b"], ["S", "O", "A", "B"]))
    out.append(("two_callers",
                [Rule("S", Choice(Call("P", "p"), Call("Q", "q")), export=True, no_skip_ws=True),
                 Rule("P", Seq(Lit("<"), Call("M", "m"), Lit(">")), no_skip_ws=True),
                 Rule("Q", Seq(Lit("<"), Call("M", "m"), Lit(">"))),
                 Rule("M", Clo(Lit("a"), plus=True), string=True, no_skip_ws=True)],
                ["<", "a", " ", ">"], ["P", "Q", "M"]))
    out.append(("closure_backtrack",
                [Rule("S", Choice(Seq(Clo(Seq(Call("I", "i"), Lit(","))), Lit("x"), Eoi()), Seq(Clo(Seq(Call("I", "i"), Lit(","))), Lit("y"), Eoi())),
                      export=True, no_skip_ws=True),
                 Rule("I", Clo(Lit("a"), plus=True), string=True, no_skip_ws=True)],
                ["a", ",", "x", "y"], ["S", "I"]))
    # memoized rules whose value is the value of another memoized rule (override wrappers with extra tokens), all
    # tried at one offset: every rule needs a cache of its own
    out.append(("override_wrappers",
                [Rule("S", Choice(Seq(Call("Marked", "m"), Lit("!")), Call("Group", "g"), Seq(Call("Name", "n"), Opt(Lit("*")))),
                      export=True, no_skip_ws=True),
                 Rule("Marked", Seq(Call("Name", "@"), Lit("*")), no_skip_ws=True),
                 Rule("Group", Choice(Seq(Lit("("), Call("Name", "@"), Lit(")")), Seq(Call("Name", "@"), Lit("*"), Lit("*"))), no_skip_ws=True),
                 Rule("Name", Clo(Lit("a"), plus=True), string=True, no_skip_ws=True)],
                ["a", "*", "(", "!"], ["Marked", "Group", "Name"]))
    # skipping memoized rules entered in front of whitespace by a non-skipping caller: where they start (range,
    # string slice, empty match) is where they were called
    out.append(("skipping_memo_noskip_caller",
                [Rule("S", Seq(Lit("a"), Call("P", "p"), Opt(Call("Q", "q")), Opt(Call("N", "n")), Eoi()), export=True, no_skip_ws=True, position=True),
                 Rule("P", Seq(Lit("b"), Opt(Lit("b"))), position=True),
                 Rule("Q", Seq(Lit("a"), Clo(Lit("a"))), string=True),
                 Rule("N", Clo(Call("F", "x"))),
                 Rule("F", Lit("b"), position=True)],
                ["a", "b", " "], ["P", "Q", "N"]))
    # a memoized rule that only forwards to another memoized rule and carries a check of its own: the check belongs to
    # the memoized body (no probe on the forwarding rule: its whole definition is the one call)
    fwd = Rule("F", Call("B", "@"), no_skip_ws=True,
               checks=[{"o": "always", "path": "@chk_fwd", "name": "@chk_fwd",
                        "rust": "pub fn chk_fwd(v: &B) -> bool { logged(\"chk_fwd\", v, true) }"}])
    fwd.keep_memo = True
    out.append(("forwarding_memo_with_check",
                [Rule("S", Choice(Seq(Call("F", "f"), Lit("x")), Seq(Call("F", "f"), Lit("y")), Seq(Call("F", "f"), Lit("z")), Call("F", "f")),
                      export=True, no_skip_ws=True),
                 fwd, Rule("B", Seq(Lit("a"), Opt(Lit("a"))), no_skip_ws=True, position=True)],
                ["a", "x", "y", "z"], ["B"]))
    # the second request of a memoized rule at one offset is the one the successful path uses; what follows it
    # (trailing whitespace) is observable in the parent's range / by a non-skipping caller
    out.append(("memo_reask_before_trailing_ws",
                [Rule("S", Choice(Seq(Call("L", "l"), Lit("!")), Seq(Call("L", "l"), Lit(" "), Opt(Lit("?")))), export=True, no_skip_ws=True, position=True),
                 Rule("L", Choice(Seq(Call("M", "m"), Lit("="), Call("M", "n")), Call("M", "m")), position=True),
                 Rule("M", Seq(Lit("a"), Clo(Lit("a"))), string=True, position=True)],
                ["a", " ", "=", "!"], ["L", "M"]))
    # a user function that itself runs a generated parser (a parse inside a parse, on the same thread)
    out.append(("nested_parse_in_extern",
                [Rule("S", Choice(Seq(Call("M", "m"), Lit("x")), Seq(Call("M", "m"), Opt(Lit("y")), Opt(Call("M", "n")))), export=True, no_skip_ws=True, position=True),
                 Rule("M", Seq(Lit("<"), Call("V", "v")), no_skip_ws=True, position=True),
                 ExternRule("V", {"o": "digits", "path": "@ext_nested", "nullable": False,
                                  "rust": "pub fn ext_nested(s: &str) -> Result<(String, usize), &'static str> { use peginator::PegParser; "
                                          "let n = s.bytes().take_while(|b| b.is_ascii_digit()).count(); "
                                          "let r = if n == 0 { Err(\"expected digits\") } else { match Inner::parse(&s[..n]) { "
                                          "Ok(_) => Ok((s[..n].to_string(), n)), Err(_) => Err(\"the inner parse failed\") } }; "
                                          "log_ext_call(\"ext_nested\", s, &r); r }"}),
                 Rule("Inner", Seq(Clo(Call("W", "ws"), plus=True), Eoi()), export=True, no_skip_ws=True, position=True),
                 Rule("W", Range("0", "9"), no_skip_ws=True, position=True, memoize=True)],
                ["<", "1", "x", "y"], ["S", "M"]))
    # a memoized rule that can match nothing, asked twice at the very end of the input (and once in the middle)
    out.append(("nullable_memo_at_end",
                [Rule("S", Choice(Seq(Lit("a"), Call("M", "m"), Lit("!")), Seq(Lit("a"), Call("M", "m"), Opt(Call("N", "n"))),
                                  Seq(Pos(Call("N")), Call("N", "n"))), export=True, no_skip_ws=True),
                 Rule("M", Clo(Lit("b")), no_skip_ws=True, string=True, position=True),
                 Rule("N", Opt(Seq(Lit("c"), Opt(Call("N", "n", boxed=True)))), no_skip_ws=True)],
                ["a", "b", "c", "!"], ["M", "N"]))
    # a user function with a bug: it panics on '!'.  The panic reaches the caller of parse() and nothing of that
    # call may show in any later parse (sequentially, in another order, on other threads)
    out.append(("panicking_extern",
                [Rule("S", Choice(Seq(Call("M", "m"), Lit("x")), Seq(Call("M", "m"), Opt(Call("X", "y")))), export=True, no_skip_ws=True),
                 Rule("M", Seq(Lit("a"), Opt(Call("X", "x"))), no_skip_ws=True),
                 ExternRule("X", {"o": "bang", "path": "verif_common::oracles::ext_bang", "nullable": False})],
                ["a", "1", "!", "x"], ["S", "M"]))
    even = {"o": "str_even", "path": "verif_common::oracles::chk_str_even", "name": "verif_common::oracles::chk_str_even"}
    out.append(("check_retry",
                [Rule("S", Choice(Seq(Call("K", "k"), Lit("!")), Call("K", "k")), export=True, no_skip_ws=True),
                 Rule("K", Clo(Lit("a"), plus=True), string=True, no_skip_ws=True, checks=[even])],
                ["a", "!", "b"], ["S", "K"]))
    return out


def add_probes(rules, names):
    """a zero-length extern probe at the start of the body of each named rule: the public-API
    way of observing body evaluations (C06)"""
    out = list(rules)
    probes = {}
    for i, n in enumerate(names):
        pr = "P" + n
        fn = "ext_probe_%d" % i
        probes[n] = {"rule": pr, "fn": fn}
        for r in out:
            if r.name == n:
                r.body = Seq(Call(pr), r.body)
        out.append(ExternRule(pr, {"o": "zero", "path": "verif_common::oracles::" + fn, "nullable": True}))
    return out, probes


def fam_memo(tier, seed):
    import copy
    rnd = random.Random(seed * 7919 + 4)
    maxlen = 4 if tier == "quick" else 5
    out = []
    for name, rules, alpha, memoizable in memo_bases():
        subsets = []
        for k in range(len(memoizable) + 1):
            subsets += list(itertools.combinations(memoizable, k))
        if tier == "quick" and len(subsets) > 8:
            subsets = [subsets[0], subsets[-1]] + sample(rnd, subsets[1:-1], 6)
        for sub in subsets:
            rs, probes = add_probes(copy.deepcopy(rules), memoizable)
            for r in rs:
                if r.kind == "rule":
                    r.memoize = r.name in sub or bool(getattr(r, "keep_memo", False))
            gid_ = "memo_%04d" % len(out)
            user_rs, memo_checks = [], {}
            for r in rs:
                if r.kind == "extern" and r.fn["path"].startswith("@"):
                    r.fn = dict(r.fn, path="crate::cases::g_%s::user::%s" % (gid_, r.fn["path"][1:]))
                    user_rs.append(r.fn["rust"])
                for c in getattr(r, "checks", []):
                    if c["path"].startswith("@"):      # a check function generated next to the grammar
                        fn_ = c["path"][1:]
                        c["path"] = c["name"] = "crate::cases::g_%s::user::%s" % (gid_, fn_)
                        user_rs.append(c["rust"])
                        if r.memoize:
                            memo_checks[r.name] = fn_
            g = Grammar(gid_, rs, root="S", maxlen=maxlen,
                        meta={"shape": name + "/" + "+".join(sub), "base": name, "memo": list(sub), "probes": probes,
                              "nrules": len(memoizable), "all_memo": len(sub) == len(memoizable) and not memo_checks,
                              "memo_checks": memo_checks, "user_rs": "\n".join(user_rs)})
            g.alpha = alpha
            if name == "nested_exp":
                g.extra = [list("a" * 7), list("a" * 6 + "b")] if tier == "quick" else [list("a" * 10), list("a" * 9 + "c")]
            else:
                add_extras(g, random.Random(seed * 7919 + 40 + len(name)), 6 if tier == "quick" else 40, 5, 9)
            if name == "nested_exp":
                # more than 20 nested rule calls (linear for every memo subset: the first alternative succeeds)
                g.real_extra.append(list("a" * 23 + "b" * 23))
                g.real_extra.append(list("a" * 26 + "b" * 25 + "c"))
                # several hundred nested rule calls, then shallower ones again: nothing learnt from a deep
                # parse (or from refusing one) may show in a later parse of the same thread
                for dp in ((300, 280, 150) if tier == "quick" else (300, 600, 280, 150)):
                    g.real_extra.append(list("a" * dp + "b" * dp))
                g.real_extra.append(list("a" * 300 + "b" * 299))
            if name in ("memo_in_closure", "failing_prefix", "three_level"):
                # inputs longer than 256 / 512 bytes: a cache keyed on part of the offset shows only there
                lr_ = random.Random(seed * 7919 + 41 + len(name))
                for n_ in ((300, 256, 512) if tier == "quick" else (300, 256, 512, 600, 1024, 1100, 4096)):
                    unit = {"memo_in_closure": ["ax", "aay", "ay", "aaax"], "failing_prefix": ["a", "b", "ab"],
                            "three_level": ["a", "aa", "x"]}[name]
                    t = ""
                    while len(t) < n_:
                        t += lr_.choice(unit)
                    if n_ in (256, 512, 1024, 4096):
                        while len(t) > n_:            # exactly a power of two bytes long
                            t = t[:-len(unit[0])] if len(t) - len(unit[0]) >= n_ else t[:n_ - 2] + "ax"[:2] if name == "memo_in_closure" else t[:n_]
                    if name == "three_level":
                        t = "a" * (n_ % 2 + 1) + "x"
                    g.real_extra.append(list(t))
            if name == "memo_in_closure" and len(sub) in (0, len(memoizable)):
                # more than 65536 positions / cache entries / bytes in one parse (real parsers only)
                g.huge_extra.append(list("ay" * 70000))
                g.huge_extra.append(list("aax" * 30000 + "ay" * 20000 + "b"))
            if name == "closure_backtrack" and len(sub) in (0, len(memoizable)):
                # ... and every one of them asked again after the first alternative failed at the very end
                g.huge_extra.append(list("a," * 70000 + "y"))
            if well_formed(g):
                out.append(g)
    return out


# ----------------------------------------------------------------------------- F-lr

def lr_bases():
    out = []
    out.append(("direct", [Rule("A", Choice(Seq(Call("A", "l", boxed=True), Lit("x")), Lit("b")),
                                export=True, no_skip_ws=True, leftrec=True)], "A", ["b", "x", "y"], True))
    out.append(("direct_position", [Rule("A", Choice(Seq(Call("A", "l", boxed=True), Lit("x")), Lit("b")),
                                         export=True, no_skip_ws=True, leftrec=True, position=True)], "A",
                ["b", "x", "y"], True))
    out.append(("two_ops", [Rule("E", Choice(Seq(Call("E", "l", boxed=True), Lit("+"), Call("N", "r")),
                                            Seq(Call("E", "l", boxed=True), Lit("-"), Call("N", "r")),
                                            Call("N", "r")), export=True, no_skip_ws=True, leftrec=True),
                            Rule("N", Lit("n"), no_skip_ws=True)], "E", ["n", "+", "-"], True))
    out.append(("base_first", [Rule("A", Choice(Lit("b"), Seq(Call("A", "l", boxed=True), Lit("x"))),
                                    export=True, no_skip_ws=True, leftrec=True)], "A", ["b", "x"], False))
    out.append(("wrapped", [Rule("S", Seq(Call("A", "a"), Eoi()), export=True, no_skip_ws=True),
                            Rule("A", Choice(Seq(Call("A", "l", boxed=True), Lit("x")), Lit("b")),
                                 no_skip_ws=True, leftrec=True)], "S", ["b", "x"], True))
    out.append(("indirect", [Rule("E", Choice(Call("P", "@"), Call("N", "@")), export=False, no_skip_ws=True, leftrec=True),
                             Rule("P", Seq(Call("E", "l", boxed=True), Lit("+"), Call("N", "r")), no_skip_ws=True),
                             Rule("N", Lit("n"), no_skip_ws=True),
                             Rule("S", Call("E", "e"), export=True, no_skip_ws=True)], "S", ["n", "+", "x"], True))
    out.append(("skipping", [Rule("E", Choice(Seq(Call("E", "l", boxed=True), Lit("+"), Call("N", "r")), Call("N", "r")),
                                  export=True, leftrec=True, position=True),
                             Rule("N", Lit("n"), position=True)], "E", ["n", "+", " "], True))
    out.append(("under_lookahead", [Rule("S", Seq(Pos(Seq(Call("A"), Lit("y"))), Call("A", "a"), Lit("y")),
                                         export=True, no_skip_ws=True),
                                    Rule("A", Choice(Seq(Call("A", "l", boxed=True), Lit("x")), Lit("b")),
                                         no_skip_ws=True, leftrec=True)], "S", ["b", "x", "y"], True))
    out.append(("string_lr", [Rule("S", Seq(Call("L", "l"), Opt(Lit("!"))), export=True, no_skip_ws=True),
                              Rule("L", Choice(Seq(Call("L"), Lit("a")), Lit("b")), no_skip_ws=True, leftrec=True,
                                   string=True)], "S", ["a", "b", "!"], True))
    out.append(("two_levels", [Rule("E", Choice(Seq(Call("E", "l", boxed=True), Lit("+"), Call("T", "r")), Call("T", "r")),
                                    export=True, no_skip_ws=True, leftrec=True),
                               Rule("T", Choice(Seq(Call("T", "l", boxed=True), Lit("*"), Call("N", "r")), Call("N", "r")),
                                    no_skip_ws=True, leftrec=True),
                               Rule("N", Lit("n"), no_skip_ws=True)], "E", ["n", "+", "*"], True))
    out.append(("growth_stops_midway", [Rule("A", Choice(Seq(Call("A", "l", boxed=True), Lit("x"), Lit("y")), Lit("b")),
                                             export=True, no_skip_ws=True, leftrec=True)], "A", ["b", "x", "y"], True))
    out.append(("lr_called_twice", [Rule("S", Choice(Seq(Call("E", "e"), Lit("x")), Seq(Call("E", "e"), Lit("y"))),
                                         export=True, no_skip_ws=True),
                                    Rule("E", Choice(Seq(Call("E", "l", boxed=True), Lit("+"), Lit("n")), Lit("n")),
                                         no_skip_ws=True, leftrec=True)], "S", ["n", "+", "x", "y"], True))
    out.append(("lr_reparse_eoi", [Rule("S", Choice(Seq(Call("E", "e"), Lit("!"), Eoi()), Seq(Call("E", "e"), Eoi())),
                                        export=True, no_skip_ws=True),
                                   Rule("E", Choice(Seq(Call("E", "l", boxed=True), Lit("+"), Lit("n")), Lit("n")),
                                        no_skip_ws=True, leftrec=True)], "S", ["n", "+", "!"], True))
    out.append(("nullable_seed", [Rule("A", Choice(Seq(Call("A", "l", boxed=True), Lit("x")), Opt(Lit("b"))),
                                       export=True, no_skip_ws=True, leftrec=True)], "A", ["b", "x", "y"], True))
    out.append(("nullable_seed_path", [Rule("S", Seq(Call("P", "p"), Eoi()), export=True, no_skip_ws=True),
                                       Rule("P", Choice(Seq(Call("P", "parent", boxed=True), Lit("/"), Call("N", "name")),
                                                        Opt(Call("N", "name"))), no_skip_ws=True, leftrec=True),
                                       Rule("N", Clo(Lit("a"), plus=True), string=True, no_skip_ws=True)], "S", ["a", "/", "x"], True))
    # the tail after the recursive reference can match nothing: a growth step that ends where the previous
    # one ended is not a growth and must be dropped, not returned
    out.append(("nullable_tail_opt", [Rule("A", Choice(Seq(Call("A", "l", boxed=True), Opt(Lit("x"))), Lit("b")),
                                           export=True, no_skip_ws=True, leftrec=True)], "A", ["b", "x", "y"], True))
    out.append(("nullable_tail_clo_indirect", [Rule("S", Seq(Call("E", "e"), Opt(Lit("."))), export=True, no_skip_ws=True),
                                               Rule("E", Choice(Call("Ext", "@"), Call("Atom", "@")), no_skip_ws=True, leftrec=True),
                                               Rule("Ext", Seq(Call("E", "left", boxed=True), Clo(Call("X", "xs"))), no_skip_ws=True),
                                               Rule("Atom", Lit("b"), no_skip_ws=True), Rule("X", Lit("x"), no_skip_ws=True)],
                "S", ["b", "x", "."], True))
    out.append(("nullable_tail_position", [Rule("O", Choice(Seq(Call("O", "left", boxed=True), Opt(Seq(Call("M", "op"), Call("N", "right")))),
                                                           Call("N", "num")), export=True, leftrec=True, position=True),
                                           Rule("M", Lit("-")), Rule("N", Lit("n"), position=True)], "O", ["n", "-", " "], True))
    # the recursive alternative is not the first one, and a seed alternative re-enters the rule at a later offset
    # (parentheses, a prefix operator) where an earlier non-recursive alternative matches
    out.append(("recursive_alternative_not_first_nested", [
        Rule("E", Choice(Call("Neg", "@"), Call("Add", "@"), Call("Par", "@"), Call("N", "@")), export=True, no_skip_ws=True, leftrec=True),
        Rule("Neg", Seq(Lit("-"), Call("N", "n")), no_skip_ws=True),
        Rule("Add", Seq(Call("E", "l", boxed=True), Lit("+"), Call("N", "r")), no_skip_ws=True),
        Rule("Par", Seq(Lit("("), Call("E", "e", boxed=True), Lit(")")), no_skip_ws=True),
        Rule("N", Lit("1"), no_skip_ws=True, string=True)], "E", ["1", "+", "-", "(", ")"], False))
    out.append(("base_fails_in_neg_lookahead", [
        Rule("E", Choice(Seq(Call("E", "l", boxed=True), Lit("+"), Call("T", "r")), Call("T", "t")), export=True, no_skip_ws=True, leftrec=True),
        Rule("T", Seq(Neg(Call("K")), Call("I", "name"), Opt(Seq(Lit("["), Call("E", "idx", boxed=True), Lit("]")))), no_skip_ws=True),
        Rule("K", Seq(Lit("e"), Neg(Call("C"))), no_skip_ws=True),
        Rule("I", Clo(Call("C"), plus=True), string=True, no_skip_ws=True),
        CharRule("C", [("lit", "a"), ("lit", "e")])], "E", ["a", "e", "+", "[", "]"], True))
    out.append(("recursion_through_include", [
        Rule("E", Choice(Inc("Tail"), Call("N", "first")), export=True, no_skip_ws=True, leftrec=True),
        Rule("Tail", Seq(Call("E", "left", boxed=True), Lit("+"), Call("N", "right")), no_skip_ws=True),
        Rule("N", Lit("n"), no_skip_ws=True, string=True)], "E", ["n", "+", "x"], True))
    # both directives on one rule (redundant but legal: @leftrec implies the cache)
    out.append(("leftrec_and_memoize", [Rule("A", Choice(Seq(Call("A", "l", boxed=True), Lit("x")), Lit("b")),
                                             export=True, no_skip_ws=True, leftrec=True, memoize=True)], "A", ["b", "x", "y"], True))
    out.append(("leftrec_and_memoize_indirect", [Rule("S", Seq(Call("E", "e"), Opt(Lit("x"))), export=True, no_skip_ws=True),
                                                 Rule("E", Choice(Call("P", "@"), Call("N", "@")), no_skip_ws=True, leftrec=True, memoize=True),
                                                 Rule("P", Seq(Call("E", "l", boxed=True), Lit("+"), Call("N", "r")), no_skip_ws=True),
                                                 Rule("N", Lit("n"), no_skip_ws=True, memoize=True)], "S", ["n", "+", "x"], True))
    out.append(("neg_guard", [Rule("A", Choice(Seq(Call("A", "l", boxed=True), Lit("x")), Seq(Neg(Call("A")), Lit("b"))),
                                   export=True, no_skip_ws=True, leftrec=True)], "A", ["b", "x"], True))
    return out


def fam_lr(tier, seed):
    maxlen = 4 if tier == "quick" else 6
    out = []
    for name, rules, root, alpha, lrfirst in lr_bases():
        g = Grammar("lr_%04d" % len(out), rules, root=root, maxlen=maxlen if len(alpha) <= 3 else maxlen - 1,
                    meta={"shape": name, "lrfirst": lrfirst})
        g.alpha = alpha
        add_extras(g, random.Random(seed * 7919 + 7 + len(out)), 15 if tier == "quick" else 80, 5, 9)
        if name == "recursive_alternative_not_first_nested":
            g.extra += [list(x) for x in ("(-1)+1", "(1)+1", "(-1)+1+1", "((1))+1", "-1+1", "(1+1)+1", "((-1)+1)+1", "(1)+(1)", "(-1)")]
        if well_formed(g):
            out.append(g)
    return out


# ----------------------------------------------------------------------------- F-pos

def fam_pos(tier, seed):
    rnd = random.Random(seed * 7919 + 5)
    maxlen = 3 if tier == "quick" else 4
    bases = []
    bases.append(("struct_nest", lambda: [
        Rule("S", Seq(Call("P", "p"), Clo(Call("Q", "q")), Opt(Call("T", "t"))), export=True),
        Rule("P", Seq(Lit("a"), Opt(Call("Q", "q")))),
        Rule("Q", Lit("b")),
        Rule("T", Clo(Lit("é"), plus=True), string=True, no_skip_ws=True)], ["S", "P", "Q", "T"], ["a", "b", "é", " "]))
    bases.append(("enum_override", lambda: [
        Rule("S", Seq(Call("O", "o"), Call("O", "o2")), export=True),
        Rule("O", Choice(Call("X", "@"), Call("Y", "@"))),
        Rule("X", Seq(Lit("a"), Opt(Lit("道")))),
        Rule("Y", Lit("b"))], ["S", "XYO"], ["a", "b", "道", " "]))
    bases.append(("noskip_inner", lambda: [
        Rule("S", Seq(Call("N", "n"), Call("N", "m")), export=True),
        Rule("N", Seq(Lit("a"), Clo(Lit(" ")), Opt(Lit("b"))), no_skip_ws=True)], ["S", "N"], ["a", "b", " "]))
    out = []
    for name, mk, marks, alpha in bases:
        subsets = []
        for k in range(len(marks) + 1):
            subsets += list(itertools.combinations(marks, k))
        for sub in subsets:
            rules = mk()
            flat = set()
            for m in sub:
                flat |= set(m) if len(m) > 1 and m.isupper() and all(rules_has(rules, c) for c in m) else {m}
            for r in rules:
                r.position = r.name in flat
            # an enum override may only be @position if all its variants are
            g = Grammar("pos_%04d" % len(out), rules, root="S", maxlen=maxlen,
                        meta={"shape": name + "/" + "+".join(sorted(flat))})
            if name == "enum_override" and "O" in flat:
                # the generated PegPosition glue of the enum override: position() must be the matched variant's range
                g.meta["flags"] = "observe"
                g.meta["user_rs"] = ("pub fn observe(v: &S) -> String { use peginator::PegPosition; "
                                     "format!(\"{:?};{:?}\", v.o.position(), v.o2.position()) }")
            g.alpha = alpha
            if well_formed(g):
                out.append(g)
    # memoized and left-recursive replays must report the same ranges
    out.append(Grammar("pos_%04d" % len(out), [
        Rule("S", Choice(Seq(Call("W", "w"), Lit("x")), Seq(Call("W", "w"), Call("W", "v"))), export=True, position=True),
        Rule("W", Seq(Lit("a"), Opt(Lit("é"))), position=True, memoize=True)], root="S", maxlen=maxlen,
        alpha=["a", "é", " ", "x"], meta={"shape": "memo_replay"}))
    for memo in (False, True):
        out.append(Grammar("pos_%04d" % len(out), [
            Rule("S", Choice(Call("P", "p"), Call("Q", "q")), export=True, no_skip_ws=True, position=True),
            Rule("P", Seq(Lit("<"), Call("W", "w"), Lit("x")), no_skip_ws=True, position=True),
            Rule("Q", Seq(Lit("<"), Call("W", "w"), Opt(Call("W", "v"))), position=True),
            Rule("W", Seq(Lit("a"), Opt(Lit("é"))), position=True, memoize=memo)], root="S", maxlen=maxlen + 1,
            alpha=["<", "a", "é", " ", "x"], meta={"shape": "two_callers_" + ("memo" if memo else "plain")}))
    out.append(Grammar("pos_%04d" % len(out), [
        Rule("E", Choice(Seq(Call("E", "l", boxed=True), Lit("+"), Call("N", "r")), Call("N", "r")), export=True,
             position=True, leftrec=True),
        Rule("N", Lit("n"), position=True)], root="E", maxlen=maxlen + 1,
        alpha=["n", "+", " "], meta={"shape": "leftrec_replay"}))
    g = Grammar("pos_%04d" % len(out), [
        Rule("S", Seq(Lit("<"), Call("E", "e"), Opt(Call("E", "f")), Lit(">")), export=True, position=True),
        Rule("E", Choice(Seq(Call("E", "l", boxed=True), Lit("+"), Call("N", "r")), Call("N", "r")), position=True, leftrec=True),
        Rule("N", Lit("n"), position=True)], root="S", maxlen=3,
        alpha=["n", "+", " ", "<", ">"], meta={"shape": "leftrec_called_after_whitespace"})
    g.extra = [list(x) for x in ("< n + n>", "<  n+n >", "<n+n  n>", "< n +n+ n >", "<   n>", "< n+ n n +n>")]
    out.append(g)
    # offsets beyond 32 bits: an extern rule skips 2^32 + 5 bytes in one step, the ranges that follow must be exact
    g = Grammar("pos_%04d" % len(out), [
        Rule("S", Seq(Call("X", "x"), Call("T", "t"), Call("U", "u"), Opt(Call("M", "m"))), export=True, no_skip_ws=True, position=True),
        ExternRule("X", {"o": "skip4g", "path": "verif_common::oracles::ext_skip_4g", "nullable": False}),
        Rule("T", Seq(Lit("b"), Lit("c")), no_skip_ws=True, position=True),
        Rule("U", Seq(Lit("d"), Clo(Lit("d"))), no_skip_ws=True, position=True, string=True),
        Rule("M", Lit("e"), no_skip_ws=True, position=True, memoize=True)], root="S", maxlen=1,
        alpha=["a", "b"], meta={"shape": "offsets_beyond_32_bits", "synthetic": ["@4g:00:6263646465"]})
    out.append(g)
    return out


def rules_has(rules, name):
    return any(r.name == name for r in rules)


# ----------------------------------------------------------------------------- F-uni

def fam_uni(tier, seed):
    rnd = random.Random(seed * 7919 + 6)
    maxlen = 3 if tier == "quick" else 4
    E9 = "é"   # bytes C3 A9
    DAO = "道"  # bytes E9 81 93: the lead byte equals the code point of é
    EMO = "\U0001F600"
    bodies = [
        ("lit_e9", Lit(E9)), ("lit_dao", Lit(DAO)), ("lit_emo", Lit(EMO)),
        ("str_mixed", Lit("a" + E9)), ("str_dao_a", Lit(DAO + "a")),
        ("range_ascii", Range("a", "z")), ("range_latin1", Range("à", "ÿ")),
        ("range_cross", Range("a", E9)), ("range_cjk", Range("一", "鿿")),
        ("range_astral", Range("\U00010000", "\U0010FFFF")),
        ("range_7f_80", Range("\x7f", "\x80")), ("range_7ff_800", Range("߿", "ࠀ")),
        ("range_ffff_10000", Range("￿", "\U00010000")),
        ("ci_a", Lit("A", ci=True)), ("ci_str", Lit("aA", ci=True)),
        ("any", Call("char", "c")), ("any_any", Seq(Call("char", "c"), Call("char", "d"))),
        ("class", Call("C", "c")), ("class_u", Call("U", "c")),
        ("not_e9_any", Seq(Neg(Lit(E9)), Call("char", "c"))),
        ("string_any", Call("T", "t")),
        ("clo_range", Clo(Range("a", E9))),
        ("ext_two", Call("X2", "x")),
    ]
    alpha = ["a", "A", E9, DAO, EMO]
    out = []
    KELVIN, IDOT, LONGS = "\u212a", "\u0130", "\u017f"     # lower-case to / look like ASCII k, i, s
    fold = [("ci_k", Lit("k", ci=True)), ("ci_ok", Lit("ok", ci=True)), ("ci_hi", Lit("hi", ci=True)), ("ci_is", Lit("is", ci=True)),
            ("ci_clo_k", Clo(Lit("k", ci=True)))]
    for name, body in fold:
        rules = [Rule("S", Seq(body, Opt(Call("T", "rest"))), export=True, position=True, no_skip_ws=True),
                 Rule("T", Clo(Call("char"), plus=True), string=True, position=True, no_skip_ws=True)]
        g = Grammar("uni_%04d" % len(out), rules, root="S", maxlen=maxlen, meta={"shape": name})
        g.alpha = ["k", "K", "i", "s", KELVIN, IDOT, LONGS][:7] if tier != "quick" else ["k", "i", "o", "h", KELVIN, IDOT]
        g.maxlen = 3 if tier != "quick" else 2
        g.extra = [list("o" + KELVIN), list("h" + IDOT), list(KELVIN + "k"), list("i" + LONGS), list(IDOT + IDOT), list("O" + KELVIN + "x")]
        out.append(g)
    # Unicode spaces are not whitespace: a skipping rule must neither skip them nor stop inside them
    NBSP, EMSP, NEL, IDSP = "\u00a0", "\u2003", "\u0085", "\u3000"
    for name, body in (("uws_lits", Seq(Lit("a"), Lit("b"))), ("uws_string", Seq(Call("W", "w"), Opt(Call("W", "v")))),
                       ("uws_eoi", Seq(Lit("a"), Eoi()))):
        rules = [Rule("S", body, export=True, position=True),
                 Rule("W", Clo(Range("a", "b"), plus=True), string=True, position=True)]
        g = Grammar("uni_%04d" % len(out), rules, root="S", maxlen=3, meta={"shape": name})
        g.alpha = ["a", "b", " ", NBSP, EMSP]
        g.extra = [list("a" + NEL + "b"), list("a" + IDSP + "b"), list(NBSP + "a"), list("a b" + EMSP), list("a" + NBSP + " b")]
        out.append(g)
    for name, body in bodies:
        rules = [Rule("S", Seq(body, Opt(Call("T", "rest"))), export=True, position=True, no_skip_ws=True),
                 Rule("T", Clo(Call("char"), plus=True), string=True, position=True, no_skip_ws=True),
                 CharRule("C", [("lit", E9), ("range", "a", "b")]),
                 CharRule("U", [("range", "\u0080", "\U0010FFFF"), ("ref", "C")]),
                 ExternRule("X2", {"o": "two", "path": "verif_common::oracles::ext_two", "nullable": False})]
        g = Grammar("uni_%04d" % len(out), rules, root="S", maxlen=maxlen, meta={"shape": name})
        g.alpha = alpha
        g.extra = [[rnd.choice(alpha + ["\x7f", "\x80", "߿", "ࠀ", "￿", "\U00010000", "\U0010FFFF"])
                    for _ in range(rnd.randint(4, 7))] for _ in range(10 if tier == "quick" else 60)]
        # long non-ASCII inputs (beyond the model-checking bound, real runs only): every alignment of
        # multi-byte characters against fixed byte offsets (IndentedTracer previews 50 characters)
        for k in range(4):
            g.real_extra.append(list("a" * k + E9 * 40))
            g.real_extra.append(list("a" * k + DAO * 30 + EMO * 10))
        # ... and against byte offsets in the hundreds (a preview or window cut at a byte count)
        for k in range(4):
            g.real_extra.append(list("a" * k + E9 * 135))
            g.real_extra.append(list("a" * k + DAO * 60 + EMO * 40 + E9 * 20))
        if well_formed(g):
            out.append(g)
    # long literals of multi-byte characters: every text derived from them (the failure message `expected string ...`,
    # what a tracer prints, a preview) is 140-300 bytes with characters of width 2 / 3 / 4 at every alignment, so a cut
    # at ANY fixed byte count falls inside a character for one of them; every failing input makes the message
    longs = []
    for ch, n_short, n_long in ((E9, 70, 150), (DAO, 47, 100), (EMO, 35, 75)):
        w = len(ch.encode("utf-8"))
        for k in range(w):
            longs.append(("longlit_%dB_k%d" % (w, k), "a" * k + ch * n_short, False))
            longs.append(("longlit_%dB_k%d_300" % (w, k), "a" * k + ch * n_long, False))
    for name, text, ci in longs:
        rules = [Rule("S", Seq(Lit(text, ci=ci), Opt(Call("T", "rest"))), export=True, position=True, no_skip_ws=True),
                 Rule("T", Clo(Call("char"), plus=True), string=True, position=True, no_skip_ws=True)]
        g = Grammar("uni_%04d" % len(out), rules, root="S", maxlen=2, meta={"shape": name})
        g.alpha = ["a", text[-1]]
        g.extra = [list(text[:5]), list(text[:-1])]
        g.real_extra = [list(text), list(text + "a"), list(text[:-1] + "a"), list(text[:len(text) // 2] + "a" + text[len(text) // 2:])]
        if well_formed(g):
            out.append(g)
    return out


# ----------------------------------------------------------------------------- F-inc

def inline(g):
    """the grammar with every >R replaced by the parenthesised body of R"""
    import copy
    g2 = copy.deepcopy(g)

    def rw(e, depth=0):
        if isinstance(e, Inc):
            return rw(copy.deepcopy(g.rule(e.rule).body), depth + 1)
        if isinstance(e, Seq):
            e.parts = [rw(p, depth) for p in e.parts]
        elif isinstance(e, Choice):
            e.alts = [rw(a, depth) for a in e.alts]
        elif isinstance(e, (Opt, Clo, Neg, Pos)):
            e.b = rw(e.b, depth)
        return e

    for r in g2.rules:
        if r.kind == "rule":
            r.body = rw(r.body)
    return g2


def fam_inc(tier, seed):
    maxlen = 4 if tier == "quick" else 5
    inc_rules = lambda: [  # noqa: E731
        Rule("I1", Seq(Call("A", "x"), Lit(","), Call("A", "y")), string=False, position=True, memoize=True,
             checks=[]),
        Rule("I2", Choice(Seq(Lit("("), Call("A", "x"), Lit(")")), Call("B", "x")), no_skip_ws=True),
        Rule("I3", Seq(Inc("I2"), Opt(Inc("I2")))),
        Rule("I4", Call("A", "@")),
        Rule("I5", Seq(Lit("a"), Opt(Lit("b"))), memoize=True),
        Rule("I6", Seq(Lit("a"), Lit("b")), no_skip_ws=True),
        Rule("I7", Seq(Lit("a"), Lit("b")), checks=[{"o": "never", "path": "verif_common::oracles::chk_never",
                                                   "name": "verif_common::oracles::chk_never"}]),
        Rule("I10", Choice(Inc("I2"), Lit(","), Seq(Lit("("), Call("B", "z"), Lit(")")))),
        Rule("I11", Inc("I10")),
        Rule("I8", Seq(Call("A", "x"), Clo(Seq(Lit(","), Call("B", "rest")))), string=True),
        Rule("I9", Choice(Seq(Lit("("), Call("I9", "inner", boxed=True), Lit(")")), Call("A", "x"))),
        Rule("Pair", Seq(Call("A", "x"), Lit(","), Call("A", "y")), no_skip_ws=True),
        Rule("PairK", Seq(Call("A", "x"), Lit(","), Call("A", "y"))),
        Rule("New", Inc("Pair")),
        Rule("NewN", Inc("PairK"), no_skip_ws=True),
        Rule("O", Seq(Lit("("), Inc("I4"), Lit(")"))),
        Rule("Tight", Seq(Lit("("), Inc("PairK"), Lit(")")), no_skip_ws=True),
        Rule("Loose", Seq(Lit("("), Inc("PairK"), Lit(")"))),
        Rule("LooseN", Seq(Lit("("), Inc("New2"), Lit(")"))),
        Rule("TightN", Seq(Lit("("), Inc("New2"), Lit(")")), no_skip_ws=True),
        Rule("New2", Inc("PairK")),
        Rule("PairKList", Seq(Inc("PairK"), Clo(Seq(Lit(","), Inc("PairK"))))),
        Rule("PairKListOuter", Seq(Lit("("), Inc("PairKList"), Lit(")"))),
        Rule("A", Lit("a")), Rule("B", Lit("b"), no_skip_ws=True)]
    sites = [
        ("plain", Seq(Inc("I1"), Lit("b"))),
        ("in_opt", Seq(Opt(Inc("I1")), Call("B", "z"))),
        ("in_clo", Clo(Inc("I2"))),
        ("in_choice", Choice(Seq(Inc("I2"), Lit(",")), Inc("I2"))),
        ("nested", Seq(Inc("I3"), Eoi())),
        ("twice", Seq(Inc("I2"), Inc("I2"))),
        ("override", Seq(Call("O", "o"), Opt(Call("O", "p")))),
        ("in_neg", Seq(Neg(Seq(Inc("I5"), Lit(","))), Inc("I2"))),
        ("in_pos", Seq(Pos(Inc("I5")), Call("A", "x"))),
        ("fieldless_in_seq", Seq(Inc("I5"), Lit(","), Inc("I6"), Call("A", "x"))),
        ("fieldless_in_opt", Seq(Opt(Inc("I6")), Opt(Inc("I5")), Call("B", "z"))),
        ("fieldless_in_clo", Seq(Clo(Seq(Inc("I6"), Lit(","))), Clo(Inc("I5")))),
        ("fieldless_in_choice", Choice(Seq(Inc("I6"), Lit(",")), Seq(Inc("I5"), Lit("(")), Inc("I6"))),
        ("fieldless_with_check", Seq(Inc("I7"), Opt(Seq(Lit(","), Inc("I7"))))),
        ("include_choice_starting_with_include", Seq(Inc("I10"), Opt(Lit(",")), Eoi())),
        ("include_alias_chain", Seq(Lit("("), Inc("I11"), Opt(Inc("I11")))),
        ("include_string_rule_with_fields", Seq(Inc("I8"), Opt(Seq(Lit("("), Inc("I8"), Lit(")"))))),
        ("include_string_rule_in_clo", Clo(Seq(Lit("("), Inc("I8"), Lit(")")))),
        ("include_boxed_self", Seq(Inc("I9"), Opt(Lit(",")))),
        ("include_boxed_self_nested", Seq(Lit("("), Opt(Inc("I9")), Lit(")"), Clo(Inc("I9")))),
        ("sole_include_noskip_target", Seq(Call("New", "n"), Opt(Call("New", "m")))),
        ("sole_include_skip_target", Seq(Call("NewN", "n"), Opt(Call("NewN", "m")))),
        # nested includes whose names contain one another (PairKListOuter > PairKList > PairK): no cycle
        ("nested_similar_names", Seq(Inc("PairKList"), Opt(Lit(")")))),
        ("nested_similar_names_deeper", Seq(Inc("PairKListOuter"), Eoi())),
        # one rule included from two rules with the same fields and different whitespace modes, in both orders
        ("two_includers_tight_first", Seq(Opt(Call("Tight", "t")), Opt(Call("Loose", "l")), Clo(Call("char")))),
        ("two_includers_loose_first", Seq(Opt(Call("Loose", "l")), Opt(Call("Tight", "t")), Clo(Call("char")))),
        ("two_includers_nested", Seq(Opt(Call("LooseN", "l")), Opt(Call("TightN", "t")), Clo(Call("char")))),
    ]
    out = []
    for name, body in sites:
        for skip in (True, False):
            import copy
            g = Grammar("inc_%04d" % len(out), [Rule("S", copy.deepcopy(body), export=True, no_skip_ws=not skip, position=True)] + inc_rules(),
                        root="S", maxlen=maxlen, meta={"shape": "%s_%s" % (name, "skip" if skip else "noskip"), "twin": "orig"})
            g.alpha = ["a", "b", "(", ")", ",", " "]
            g.maxlen = 3 if tier == "quick" else 4
            add_extras(g, random.Random(seed * 7919 + 90 + len(out)), 12 if tier == "quick" else 60, 4, 8)
            if not well_formed(g):
                continue
            if (len(out) // 2) % 2 == 1:
                # in every other pair the fields appear in the reverse of their alphabetical order
                rename(g, {}, {"x": "q", "y": "b", "z": "m", "rest": "a_rest", "inner": "k_inner"})
            t = inline(g)
            t.id = "inc_%04d" % (len(out) + 1)
            t.meta = dict(g.meta)
            t.meta["twin"] = "inlined"
            t.meta["twin_of"] = g.id
            out += [g, t]
    return out


# ----------------------------------------------------------------------------- F-user

def fam_user(tier, seed):
    maxlen = 3 if tier == "quick" else 4
    P = "verif_common::oracles::"
    ext = {
        "D": ExternRule("D", {"o": "digits", "path": P + "ext_digits", "nullable": False}),
        "X2": ExternRule("X2", {"o": "two", "path": P + "ext_two", "nullable": False}),
        "Z": ExternRule("Z", {"o": "zero", "path": P + "ext_zero", "nullable": True}),
        "F": ExternRule("F", {"o": "fail", "path": P + "ext_fail", "nullable": False}),
        "UP": ExternRule("UP", {"o": "upper", "path": P + "ext_upper", "ret": "char", "nullable": False}),
    }
    always = {"o": "always", "path": P + "chk_always", "name": P + "chk_always"}
    never = {"o": "never", "path": P + "chk_never", "name": P + "chk_never"}
    even = {"o": "str_even", "path": P + "chk_str_even", "name": P + "chk_str_even"}
    shapes = []

    def mk(name, rules, alpha, user_rs=None):
        shapes.append((name, rules, alpha, user_rs))

    A = ["a", "1", "B", " "]
    mk("ext_field", [Rule("S", Seq(Call("D", "d"), Opt(Lit("a"))), export=True), ext["D"]], A)
    mk("ext_noskip", [Rule("S", Seq(Lit("a"), Call("D", "d")), export=True, no_skip_ws=True), ext["D"]], A)
    mk("ext_in_clo", [Rule("S", Seq(Clo(Seq(Call("D", "d"), Lit("a"))), Eoi()), export=True), ext["D"]], A)
    mk("ext_in_choice", [Rule("S", Choice(Seq(Call("D", "d"), Lit("a")), Seq(Call("D", "d"), Lit("B")), Call("UP", "u")), export=True),
                         ext["D"], ext["UP"]], A)
    mk("ext_in_neg", [Rule("S", Seq(Neg(Call("D")), Call("char", "c")), export=True, no_skip_ws=True), ext["D"]], A)
    mk("ext_two", [Rule("S", Seq(Call("X2", "x"), Opt(Call("X2", "y"))), export=True, no_skip_ws=True), ext["X2"]],
       ["a", "é", "道"])
    mk("ext_zero_fail", [Rule("S", Choice(Seq(Call("F", "f"), Lit("a")), Seq(Call("Z", "z"), Lit("a"))), export=True, no_skip_ws=True),
                         ext["Z"], ext["F"]], ["a", "b"])
    mk("ext_char", [Rule("S", Seq(Call("UP", "u"), Clo(Call("UP", "v"))), export=True), ext["UP"]], A)
    mk("ext_memo", [Rule("S", Choice(Seq(Call("M", "m"), Lit("a")), Seq(Call("M", "m"), Lit("B"))), export=True),
                    Rule("M", Call("D", "d"), memoize=True), ext["D"]], A)
    # checks on @string rules
    mk("chk_string_even", [Rule("S", Seq(Call("T", "t"), Opt(Lit("!"))), export=True, no_skip_ws=True),
                           Rule("T", Clo(Lit("a"), plus=True), string=True, no_skip_ws=True, checks=[even])],
       ["a", "!", "b"])
    mk("chk_backtrack", [Rule("S", Choice(Seq(Call("T", "t"), Lit("!")), Seq(Call("U", "u"), Opt(Lit("!")))), export=True, no_skip_ws=True),
                         Rule("T", Clo(Lit("a"), plus=True), string=True, no_skip_ws=True, checks=[even]),
                         Rule("U", Clo(Lit("a"), plus=True), string=True, no_skip_ws=True, checks=[always])],
       ["a", "!", "b"])
    mk("chk_never_always", [Rule("S", Choice(Call("N", "n"), Call("Y", "y")), export=True, no_skip_ws=True),
                            Rule("N", Lit("a"), no_skip_ws=True, checks=[always, never]),
                            Rule("Y", Lit("a"), no_skip_ws=True, checks=[always, always])], ["a", "b"])
    mk("chk_memo_retry", [Rule("S", Choice(Seq(Call("K", "k"), Lit("!")), Call("K", "k"), Call("char", "c")), export=True, no_skip_ws=True),
                          Rule("K", Clo(Lit("a"), plus=True), string=True, no_skip_ws=True, memoize=True, checks=[even])],
       ["a", "!", "b"])
    # checks on struct / enum / override / position rules: generated per grammar
    mk("chk_struct_len", [Rule("S", Seq(Call("L", "l"), Clo(Lit("a"))), export=True, no_skip_ws=True),
                          Rule("L", Clo(Call("A", "xs")), no_skip_ws=True,
                               checks=[{"o": "len_le", "f": "xs", "n": 2, "path": "@chk_len", "name": "@chk_len",
                                        "rust": "pub fn chk_len(v: &L) -> bool { logged(\"chk_len\", v, v.xs.len() <= 2) }"}]),
                          Rule("A", Lit("a"), no_skip_ws=True)], ["a", "b"])
    mk("chk_struct_some", [Rule("S", Choice(Call("L", "l"), Call("char", "c")), export=True, no_skip_ws=True),
                           Rule("L", Seq(Lit("a"), Opt(Call("B", "b"))), no_skip_ws=True,
                                checks=[{"o": "is_some", "f": "b", "path": "@chk_some", "name": "@chk_some",
                                         "rust": "pub fn chk_some(v: &L) -> bool { logged(\"chk_some\", v, v.b.is_some()) }"}]),
                           Rule("B", Lit("b"), no_skip_ws=True)], ["a", "b"])
    mk("chk_enum_variant", [Rule("S", Seq(Call("O", "o"), Opt(Call("O", "p"))), export=True, no_skip_ws=True),
                            Rule("O", Choice(Call("A", "@"), Call("B", "@")), no_skip_ws=True,
                                 checks=[{"o": "variant_is", "variant": "B", "path": "@chk_var", "name": "@chk_var",
                                          "rust": "pub fn chk_var(v: &O) -> bool { logged(\"chk_var\", v, matches!(v, O::B(_))) }"}]),
                            Rule("A", Lit("a"), no_skip_ws=True), Rule("B", Lit("b"), no_skip_ws=True)], ["a", "b"])
    mk("chk_position_span", [Rule("S", Seq(Call("W", "w"), Clo(Call("char"))), export=True),
                             Rule("W", Clo(Lit("a"), plus=True), position=True,
                                  checks=[{"o": "span_le", "n": 2, "path": "@chk_span", "name": "@chk_span",
                                           "rust": "pub fn chk_span(v: &W) -> bool { logged(\"chk_span\", v, v.position.end - v.position.start <= 2) }"}])],
       ["a", " ", "b"])
    # checks on @leftrec rules: every growth step is checked; a step that fails its check ends the growth and
    # the previous result stands
    mk("chk_leftrec_span", [Rule("S", Seq(Call("A", "a"), Call("R", "rest")), export=True, no_skip_ws=True),
                            Rule("A", Choice(Seq(Call("A", "l", boxed=True), Lit("x")), Lit("b")), no_skip_ws=True, leftrec=True, position=True,
                                 checks=[{"o": "span_le", "n": 3, "path": "@chk_lspan", "name": "@chk_lspan",
                                          "rust": "pub fn chk_lspan(v: &A) -> bool { logged(\"chk_lspan\", v, v.position.end - v.position.start <= 3) }"}]),
                            Rule("R", Clo(Call("char")), string=True, no_skip_ws=True)], ["b", "x", "y"])
    mk("chk_leftrec_enum", [Rule("S", Seq(Call("E", "e"), Call("R", "rest")), export=True, no_skip_ws=True),
                            Rule("E", Choice(Call("P", "@"), Call("N", "@")), no_skip_ws=True, leftrec=True,
                                 checks=[{"o": "variant_is", "variant": "N", "path": "@chk_lvar", "name": "@chk_lvar",
                                          "rust": "pub fn chk_lvar(v: &E) -> bool { logged(\"chk_lvar\", v, matches!(v, E::N(_))) }"}]),
                            Rule("P", Seq(Call("E", "l", boxed=True), Lit("+"), Call("N", "r")), no_skip_ws=True),
                            Rule("N", Lit("n"), no_skip_ws=True),
                            Rule("R", Clo(Call("char")), string=True, no_skip_ws=True)], ["n", "+", "x"])
    mk("chk_leftrec_seed_rejected", [Rule("S", Choice(Call("A", "a"), Call("R", "rest")), export=True, no_skip_ws=True),
                                     Rule("A", Choice(Seq(Call("A", "l", boxed=True), Lit("x")), Lit("b")), no_skip_ws=True, leftrec=True,
                                          checks=[never]),
                                     Rule("R", Clo(Call("char")), string=True, no_skip_ws=True)], ["b", "x"])
    # @char rule checks see the next character
    mk("chk_char", [Rule("S", Seq(Call("C", "c"), Opt(Call("C", "d"))), export=True),
                    CharRule("C", [("range", "a", "z"), ("lit", "1")],
                             checks=[{"o": "char_not", "c": "b", "path": "@cchk_notb", "name": "@cchk_notb",
                                      "rust": "pub fn cchk_notb(c: char) -> bool { logged(\"cchk_notb\", &c, c != 'b') }"}])],
       ["a", "b", "1", " "])
    mk("chk_char_two", [Rule("S", Seq(Call("C", "c"), Opt(Call("C", "d")), Opt(Call("char", "e"))), export=True, no_skip_ws=True),
                        CharRule("C", [("range", "a", "z"), ("range", "A", "Z"), ("lit", "1")],
                                 checks=[{"o": "char_in", "lo": "a", "hi": "z", "path": "@cchk_lower", "name": "@cchk_lower",
                                          "rust": "pub fn cchk_lower(c: char) -> bool { logged(\"cchk_lower\", &c, c.is_ascii_lowercase()) }"},
                                         {"o": "char_not", "c": "b", "path": "@cchk_notb2", "name": "@cchk_notb2",
                                          "rust": "pub fn cchk_notb2(c: char) -> bool { logged(\"cchk_notb2\", &c, c != 'b') }"},
                                         {"o": "always", "path": P + "cchk_always", "name": P + "cchk_always"}])],
       ["a", "b", "B", "1"])
    mk("chk_char_first_rejects", [Rule("S", Clo(Choice(Call("C", "c"), Call("D", "d"))), export=True, no_skip_ws=True),
                                  CharRule("C", [("range", "a", "z")],
                                           checks=[{"o": "char_not", "c": "a", "path": "@cchk_nota", "name": "@cchk_nota",
                                                    "rust": "pub fn cchk_nota(c: char) -> bool { logged(\"cchk_nota\", &c, c != 'a') }"},
                                                   {"o": "char_in", "lo": "a", "hi": "b", "path": "@cchk_ab", "name": "@cchk_ab",
                                                    "rust": "pub fn cchk_ab(c: char) -> bool { logged(\"cchk_ab\", &c, ('a'..='b').contains(&c)) }"}]),
                                  CharRule("D", [("lit", "a"), ("lit", "c")])], ["a", "b", "c"])
    # a rejected value: the failure belongs where the value ends, and what failed inside the body further on stays
    # recorded (every rule template: enum override, simple override, struct, @string)
    for kind, orule in (("enum", Rule("O", Choice(Call("AA", "@"), Call("B", "@")), no_skip_ws=True)),
                        ("simple", Rule("O", Seq(Lit("a"), Call("AA", "@"), Opt(Lit("b"))), no_skip_ws=True)),
                        ("struct", Rule("O", Seq(Call("AA", "x"), Clo(Call("B", "ys"))), no_skip_ws=True)),
                        ("string", Rule("O", Seq(Lit("a"), Clo(Lit("a")), Opt(Seq(Lit("b"), Lit("b")))), no_skip_ws=True, string=True))):
        orule.checks = [never]
        mk("chk_reject_inner_failures_" + kind,
           [Rule("S", Choice(Seq(Call("O", "o"), Lit("!")), Lit("!")), export=True, no_skip_ws=True), orule,
            Rule("AA", Seq(Lit("a"), Clo(Lit("a"))), no_skip_ws=True, string=True), Rule("B", Lit("b"), no_skip_ws=True)], ["a", "b", "!"])
    # functions named by relative paths (the calls are generated inside `mod peginator_generated` of the grammar module)
    mk("relative_paths", [Rule("S", Seq(Call("Sm", "s"), Opt(Call("V", "v")), Opt(Call("Dg", "d"))), export=True, no_skip_ws=True),
                          Rule("Sm", Seq(Lit("a"), Clo(Lit("a"))), no_skip_ws=True, string=True,
                               checks=[{"o": "str_len_le", "n": 2, "path": "~super::super::user::rel_short", "name": "~super::super::user::rel_short",
                                        "rust": "pub fn rel_short(v: &String) -> bool { logged(\"rel_short\", v, v.len() <= 2) }"}]),
                          CharRule("V", [("range", "a", "c")],
                                   checks=[{"o": "char_not", "c": "b", "path": "~super::super::user::rel_notb", "name": "~super::super::user::rel_notb",
                                            "rust": "pub fn rel_notb(c: char) -> bool { logged(\"rel_notb\", &c, c != 'b') }"}]),
                          ExternRule("Dg", {"o": "digits", "path": "super::super::user::ext_digits", "nullable": False})],
       ["a", "b", "1"])
    # several checks on one rule whose functions have the same name in different modules; the same function on two rules
    mk("chk_same_name_other_module",
       [Rule("S", Choice(Call("N", "n"), Call("M", "m"), Call("R", "r")), export=True, no_skip_ws=True),
        Rule("N", Seq(Lit("a"), Clo(Lit("a"))), no_skip_ws=True, string=True,
             checks=[{"o": "str_even", "path": "@even::valid", "name": "@even::valid",
                      "rust": "pub mod even { use super::*; pub fn valid(v: &String) -> bool { logged(\"even::valid\", v, v.len() % 2 == 0) } }"},
                     {"o": "str_len_le", "n": 2, "path": "@short::valid", "name": "@short::valid",
                      "rust": "pub mod short { use super::*; pub fn valid(v: &String) -> bool { logged(\"short::valid\", v, v.len() <= 2) } }"}]),
        Rule("M", Seq(Lit("a"), Clo(Lit("a"))), no_skip_ws=True, string=True,
             checks=[{"o": "str_len_le", "n": 2, "path": "@short::valid", "name": "@short::valid", "rust": ""}]),
        Rule("R", Clo(Call("char")), no_skip_ws=True, string=True)], ["a", "b"])
    # an optional that is abandoned after getting further than where an extern rule then succeeds: the failure stays on record
    mk("ext_after_abandoned_optional", [Rule("S", Seq(Opt(Seq(Lit("1"), Lit("1"), Lit("1"), Lit("!"))), Call("X2", "d"), Lit(";")), export=True, no_skip_ws=True),
                                        ext["X2"]], ["1", "!", ";"])
    mk("ext_in_closure_after_abandoned_iteration", [Rule("S", Seq(Clo(Seq(Call("D", "k"), Lit("="), Call("D", "v"), Lit(","))), Call("D", "last"), Lit("!"), Eoi()),
                                                         export=True, no_skip_ws=True),
                                                    ExternRule("D", {"o": "digits", "path": "verif_common::oracles::ext_digits", "nullable": False})],
       ["1", "=", ",", "!"])
    # a @char rule referenced from another @char rule keeps its checks (two levels deep)
    mk("chk_char_in_char", [Rule("S", Seq(Call("N", "n"), Opt(Call("P", "p")), Opt(Call("V", "v"))), export=True, no_skip_ws=True),
                            CharRule("V", [("range", "a", "z")],
                                     checks=[{"o": "char_not", "c": "b", "path": "@cchk_vnotb", "name": "@cchk_vnotb",
                                              "rust": "pub fn cchk_vnotb(c: char) -> bool { logged(\"cchk_vnotb\", &c, c != 'b') }"}]),
                            CharRule("N", [("ref", "V"), ("lit", "1")]),
                            CharRule("P", [("lit", "/"), ("ref", "N")],
                                     checks=[{"o": "char_not", "c": "c", "path": "@cchk_pnotc", "name": "@cchk_pnotc",
                                              "rust": "pub fn cchk_pnotc(c: char) -> bool { logged(\"cchk_pnotc\", &c, c != 'c') }"}])],
       ["a", "b", "c", "1", "/"])
    mk("chk_char_in_char_choice", [Rule("S", Clo(Choice(Call("N", "n"), Call("K", "k"))), export=True, no_skip_ws=True),
                                   CharRule("V", [("range", "a", "c")],
                                            checks=[{"o": "char_not", "c": "b", "path": "@cchk_vnotb2", "name": "@cchk_vnotb2",
                                                     "rust": "pub fn cchk_vnotb2(c: char) -> bool { logged(\"cchk_vnotb2\", &c, c != 'b') }"}]),
                                   CharRule("N", [("lit", "1"), ("ref", "V")]),
                                   CharRule("K", [("lit", "b")])], ["a", "b", "c", "1"])
    mk("ext_zero_at_end", [Rule("S", Seq(Lit("a"), Call("Z", "z"), Eoi()), export=True, no_skip_ws=True), ext["Z"]], ["a", "b"])
    mk("ext_zero_ws_end", [Rule("S", Seq(Lit("a"), Call("Z", "z"), Opt(Lit("b"))), export=True), ext["Z"]], ["a", "b", " "])
    mk("ext_zero_in_clo_end", [Rule("S", Seq(Clo(Seq(Lit("a"), Call("Z", "z"))), Eoi()), export=True), ext["Z"]], ["a", " ", "b"])
    mk("ext_digits_at_end", [Rule("S", Seq(Clo(Seq(Call("D", "d"), Opt(Lit("a")))), Eoi()), export=True), ext["D"]], ["1", "a", " "])
    out = []
    for name, rules, alpha, _ in shapes:
        gid = "user_%04d" % len(out)
        user_rs = []
        import copy
        rules = copy.deepcopy(rules)
        if name.startswith("ext_") and rules[0].kind == "rule" and not rules[0].checks:
            rules[0].position = True     # byte offsets after an extern match are observable in the root's range
        for r in rules:
            for c in getattr(r, "checks", []):
                if c["path"].startswith("~"):
                    c["path"] = c["name"] = c["path"][1:]
                    user_rs.append(c["rust"])
                elif c["path"].startswith("@"):
                    fn = c["path"][1:]
                    c["path"] = "crate::cases::g_%s::user::%s" % (gid, fn)
                    c["name"] = c["path"]
                    user_rs.append(c["rust"])
        g = Grammar(gid, rules, maxlen=maxlen, meta={"shape": name, "user_rs": "\n".join(user_rs)})
        g.alpha = alpha
        add_extras(g, random.Random(seed * 7919 + 70 + len(out)), 8 if tier == "quick" else 40, 4, 8)
        if well_formed(g):
            out.append(g)
    return out


FAMILIES.update({"fields": fam_fields, "ws": fam_ws, "memo": fam_memo, "lr": fam_lr, "pos": fam_pos,
                 "uni": fam_uni, "inc": fam_inc, "user": fam_user})


# ----------------------------------------------------------------------------- F-bad (C15)

def fam_bad(tier, seed):
    """for each documented restriction: violating grammars in varied contexts and their nearest
    valid neighbours; include graphs; identifier spellings; derive sets.  meta.expect = code|error"""
    rnd = random.Random(seed * 7919 + 15)
    out = []
    A = lambda: Rule("A", Lit("a"))  # noqa: E731
    B = lambda: Rule("B", Lit("b"))  # noqa: E731

    def mk(name, rules, expect, root=None, **meta):
        m = {"shape": name, "expect": expect, "flags": "nocompile"}
        m.update(meta)
        g = Grammar("bad_%04d" % len(out), rules, root=root or rules[0].name, maxlen=0, meta=m)
        g.alpha = ["a"]
        out.append(g)

    # R1 fields inside lookaheads
    for la, ln in ((Neg, "neg"), (Pos, "pos")):
        mk("R1_%s_field" % ln, [Rule("S", Seq(la(Call("A", "x")), Lit("a")), export=True), A()], "error")
        mk("R1_%s_deep" % ln, [Rule("S", Seq(la(Seq(Lit("a"), Opt(Call("A", "x")))), Lit("a")), export=True), A()], "error")
        mk("R1_%s_override" % ln, [Rule("R", Call("S", "s"), export=True), Rule("S", Seq(la(Call("A", "@")), Call("A", "@"))), A()], "error")
        mk("R1_%s_via_include" % ln, [Rule("S", Seq(la(Inc("I")), Lit("a")), export=True), Rule("I", Call("A", "x")), A()], "error")
        mk("R1_%s_in_clo" % ln, [Rule("S", Clo(Seq(la(Call("A", "x")), Call("char"))), export=True), A()], "error")
        mk("R1_%s_ok_nofield" % ln, [Rule("S", Seq(la(Call("A")), Call("A", "x")), export=True), A()], "code")
        mk("R1_%s_ok_include_nofield" % ln, [Rule("S", Seq(la(Inc("I")), Call("A", "x")), export=True), Rule("I", Call("A")), A()], "code")
    # R2 mixing
    mk("R2_mix_seq", [Rule("R", Call("S", "s"), export=True), Rule("S", Seq(Call("A", "@"), Call("B", "x"))), A(), B()], "error")
    mk("R2_mix_choice", [Rule("R", Call("S", "s"), export=True), Rule("S", Choice(Call("A", "@"), Call("B", "x"))), A(), B()], "error")
    mk("R2_mix_include", [Rule("R", Call("S", "s"), export=True), Rule("S", Seq(Call("A", "@"), Inc("I"))), Rule("I", Call("B", "x")), A(), B()], "error")
    # ... whatever comes first: the named field, the override, and however deep
    mk("R2_mix_seq_named_first", [Rule("R", Call("S", "s"), export=True), Rule("S", Seq(Call("B", "x"), Call("A", "@"))), A(), B()], "error")
    mk("R2_mix_choice_named_first", [Rule("R", Call("S", "s"), export=True), Rule("S", Choice(Call("B", "x"), Seq(Lit("("), Call("A", "@"), Lit(")")))), A(), B()], "error")
    mk("R2_mix_named_first_in_opt", [Rule("R", Call("S", "s"), export=True), Rule("S", Seq(Opt(Call("B", "x")), Call("A", "@"))), A(), B()], "error")
    mk("R2_mix_named_twice_then_override", [Rule("R", Call("S", "s"), export=True), Rule("S", Seq(Call("B", "x"), Call("B", "y"), Clo(Call("A", "@")))), A(), B()], "error")
    mk("R2_mix_include_named_first", [Rule("R", Call("S", "s"), export=True), Rule("S", Seq(Inc("I"), Call("A", "@"))), Rule("I", Call("B", "x")), A(), B()], "error")
    mk("R2_ok_override_plain", [Rule("R", Call("S", "s"), export=True), Rule("S", Seq(Call("A", "@"), Call("B"))), A(), B()], "code")
    mk("R2_ok_string_ignores_fields", [Rule("R", Call("S", "s"), export=True),
                                       Rule("S", Seq(Call("A", "@"), Call("B", "x")), string=True), A(), B()], "code")
    # R3 multi-type override not exactly once
    mk("R3_enum_in_opt", [Rule("R", Call("S", "s"), export=True), Rule("S", Choice(Opt(Call("A", "@")), Call("B", "@"))), A(), B()], "error")
    mk("R3_enum_in_clo", [Rule("R", Call("S", "s"), export=True), Rule("S", Clo(Choice(Call("A", "@"), Call("B", "@")))), A(), B()], "error")
    mk("R3_enum_missing_arm", [Rule("R", Call("S", "s"), export=True), Rule("S", Choice(Call("A", "@"), Call("B", "@"), Lit("x"))), A(), B()], "error")
    mk("R3_enum_twice", [Rule("R", Call("S", "s"), export=True), Rule("S", Seq(Call("A", "@"), Call("B", "@"))), A(), B()], "error")
    mk("R3_ok_enum", [Rule("R", Call("S", "s"), export=True), Rule("S", Choice(Call("A", "@"), Seq(Lit("x"), Call("B", "@")))), A(), B()], "code")
    mk("R3_ok_single_type_opt", [Rule("R", Call("S", "s"), export=True), Rule("S", Choice(Call("A", "@"), Lit("x"))), A()], "code")
    mk("R3_ok_single_type_clo", [Rule("R", Call("S", "s"), export=True), Rule("S", Clo(Call("A", "@"))), A()], "code")
    # R4 / R5 plain override exported / positioned
    mk("R4_export_plain_override", [Rule("S", Call("A", "@"), export=True), A()], "error")
    mk("R5_position_plain_override", [Rule("R", Call("S", "s"), export=True), Rule("S", Call("A", "@"), position=True), A()], "error")
    mk("R4_export_optional_override", [Rule("S", Opt(Call("A", "@")), export=True), A()], "error")
    mk("R4_ok_export_enum", [Rule("S", Choice(Call("A", "@"), Call("B", "@")), export=True), A(), B()], "code")
    mk("R5_ok_position_enum", [Rule("R", Call("S", "s"), export=True), Rule("S", Choice(Call("A", "@"), Call("B", "@")), position=True),
                               Rule("A", Lit("a"), position=True), Rule("B", Lit("b"), position=True)], "code")
    # R6 @string @export
    mk("R6_string_export", [Rule("S", Lit("a"), export=True, string=True)], "error")
    mk("R6_ok_string", [Rule("R", Call("S", "s"), export=True), Rule("S", Lit("a"), string=True)], "code")
    # R7 skipping Whitespace
    mk("R7_ws_skipping", [Rule("S", Lit("a"), export=True), Rule("Whitespace", Clo(Lit(" ")))], "error")
    mk("R7_ok_ws_noskip", [Rule("S", Lit("a"), export=True), Rule("Whitespace", Clo(Lit(" ")), no_skip_ws=True)], "code")
    # R8 @memoize without Clone, for several derive sets
    for dn, dl in (("debug", ["Debug"]), ("none", []), ("dbg_clone", ["Debug", "Clone"]), ("clone", ["Clone"]),
                   ("full", ["Debug", "Clone", "PartialEq", "Eq"])):
        ok = "Clone" in dl
        mk("R8_memoize_%s" % dn, [Rule("S", Call("A", "x"), export=True), Rule("A", Lit("a"), memoize=True)],
           "code" if ok else "error", derives=",".join(dl) if dl else "", derives_list=dl)
        mk("R8_leftrec_%s" % dn, [Rule("S", Call("E", "x"), export=True),
                                  Rule("E", Choice(Seq(Call("E", "l", boxed=True), Lit("+"), Call("N", "r")), Call("N", "r")), leftrec=True),
                                  Rule("N", Lit("n"))],
           "code" if ok else "error", derives=",".join(dl) if dl else "", derives_list=dl)
        mk("R8_leftrec_string_%s" % dn, [Rule("S", Call("L", "x"), export=True),
                                         Rule("L", Choice(Seq(Call("L"), Lit("a")), Lit("b")), leftrec=True, string=True)],
           "code" if ok else "error", derives=",".join(dl) if dl else "", derives_list=dl)
        mk("R8_plain_%s" % dn, [Rule("S", Call("A", "x"), export=True), A()], "code", derives=",".join(dl) if dl else "", derives_list=dl)
    # R8 again: only `Clone` itself counts, not a trait whose name ends in it or a path to it
    for dn, dl in (("dynclone", ["Debug", "DynClone"]), ("path_lookalike", ["Debug", "dyn_clone::DynClone"]), ("unclone", ["Unclone", "Debug"]),
                   ("clone_path", ["Debug", "std::clone::Clone"])):
        mk("R8_memoize_lookalike_%s" % dn, [Rule("S", Call("A", "x"), export=True), Rule("A", Lit("a"), memoize=True)], "error",
           derives=",".join(dl), derives_list=dl)
        mk("R8_leftrec_lookalike_%s" % dn, [Rule("S", Call("E", "x"), export=True),
                                           Rule("E", Choice(Seq(Call("E", "l", boxed=True), Lit("+")), Lit("n")), leftrec=True)], "error",
           derives=",".join(dl), derives_list=dl)
    # R13 entries of the derive list: trait names and paths to traits are fine, anything else is an error (not a panic)
    for dn, dl, ok in (("path", ["Debug", "Clone", "std::cmp::PartialEq"], True), ("absolute_path", ["::core::fmt::Debug", "Clone"], True),
                       ("crate_path", ["Clone", "crate::my::Trait"], True), ("with_space", ["Debug Clone"], False),
                       ("digit_first", ["Debug", "1abc"], False), ("generic", ["Into<u8>", "Clone"], False),
                       ("path_with_bad_segment", ["serde::9"], False), ("trailing_colons", ["Clone::"], False)):
        mk("R13_derive_%s" % dn, [Rule("S", Call("A", "x"), export=True), A()], "code" if ok else "error",
           derives=",".join(dl), derives_list=dl, badderive=not ok)
    # R9 non-ASCII case-insensitive literals
    mk("R9_ci_nonascii_char", [Rule("S", Lit("é", ci=True), export=True)], "error")
    mk("R9_ci_nonascii_str", [Rule("S", Lit("aé", ci=True), export=True)], "error")
    mk("R9_ci_in_included", [Rule("S", Inc("I"), export=True), Rule("I", Lit("ß", ci=True))], "error")
    mk("R9_ok_ci_ascii", [Rule("S", Seq(Lit("aE", ci=True), Lit("é")), export=True)], "code")
    # R10 invalid code points
    for nm, cp, ok in (("surrogate_lo", 0xD800, False), ("surrogate_hi", 0xDFFF, False), ("above_max", 0x110000, False),
                       ("below_surrogate", 0xD7FF, True), ("above_surrogate", 0xE000, True), ("max", 0x10FFFF, True)):
        mk("R10_lit_%s" % nm, [Rule("S", Lit(None, cps=[97, cp]), export=True)], "code" if ok else "error")
        mk("R10_range_%s" % nm, [Rule("S", Range("a", cp), export=True)], "code" if ok else "error")
        mk("R10_charrule_%s" % nm, [Rule("S", Call("C", "c"), export=True), CharRule("C", [("lit", "a"), ("range", "b", cp)])],
           "code" if ok else "error")
    for ctxn, wrap in (("choice_alt", lambda b: Choice(Lit("a"), b)), ("choice_first", lambda b: Choice(b, Lit("a"))),
                       ("group_in_seq", lambda b: Seq(Lit("a"), Choice(Lit("b"), b))), ("closure", lambda b: Clo(Choice(Lit("a"), b))),
                       ("optional", lambda b: Opt(Choice(b, Lit("a")))), ("lookahead", lambda b: Seq(Neg(Choice(Lit("a"), b)), Lit("b")))):
        mk("R10_surrogate_in_%s" % ctxn, [Rule("S", wrap(Lit(None, cps=[0xD800])), export=True)], "error")
        mk("R10_range_above_max_in_%s" % ctxn, [Rule("S", wrap(Range("a", 0x110000)), export=True)], "error")
        mk("R9_ci_nonascii_in_%s" % ctxn, [Rule("S", wrap(Lit("éé", ci=True)), export=True)], "error")
        mk("R10_ok_valid_in_%s" % ctxn, [Rule("S", wrap(Lit(None, cps=[0xD7FF])), export=True)], "code")
    # R11 include targets
    mk("R11_include_missing", [Rule("S", Seq(Inc("Nope"), Lit("a")), export=True)], "error")
    mk("R11_include_char", [Rule("S", Inc("C"), export=True), CharRule("C", [("lit", "a")])], "error")
    mk("R11_include_extern", [Rule("S", Inc("X"), export=True),
                              ExternRule("X", {"o": "zero", "path": "crate::f", "nullable": True})], "error")
    mk("R11_ok_include", [Rule("S", Seq(Inc("I"), Lit("a")), export=True), Rule("I", Call("A", "x")), A()], "code")
    # R12 include graphs on three rules: edge i->j: rule i includes rule j
    names = ["P", "Q", "R"]
    graphs = list(itertools.product([0, 1], repeat=9))
    if tier == "quick":
        graphs = [g_ for g_ in graphs if sum(g_) <= 2] + sample(rnd, [g_ for g_ in graphs if sum(g_) > 2], 24)
    for gr in graphs:
        edges = [(i, j) for i in range(3) for j in range(3) if gr[i * 3 + j]]
        rules = []
        for i in range(3):
            parts = [Lit("a")] + [Inc(names[j]) for (x, j) in edges if x == i]
            rules.append(Rule(names[i], Seq(*parts), export=(i == 0)))
        # cycle?
        reach = {i: {j for (x, j) in edges if x == i} for i in range(3)}
        ch = True
        while ch:
            ch = False
            for i in range(3):
                n = set(reach[i])
                for j in list(reach[i]):
                    n |= reach[j]
                if n != reach[i]:
                    reach[i] = n
                    ch = True
        cyc = any(i in reach[i] for i in range(3))
        mk("R12_incgraph_%s" % "".join(map(str, gr)), rules, "error" if cyc else "code", answer_only=cyc)
    # a long chain of includes is no cycle
    for n_ in (20, 120):
        rules = [Rule("S", Seq(Lit("("), Inc("I0")), export=True)]
        for i in range(n_):
            rules.append(Rule("I%d" % i, Seq(Lit("a"), Inc("I%d" % (i + 1))) if i + 1 < n_ else Call("A", "x")))
        rules.append(A())
        mk("R12_ok_include_chain_%d" % n_, rules, "code")
    # R12 identifier spellings: the compiler must answer (anything), never panic
    for nm in ("self", "Self", "super", "crate", "1abc", "9"):
        mk("R12_rule_named_%s" % nm, [Rule("S", Call(nm, "x"), export=True), Rule(nm, Lit("a"))], "error", badident=True, answer_only=True)
        mk("R12_field_named_%s" % nm, [Rule("S", Call("A", nm), export=True), A()], "error", badident=True, answer_only=True)
    # ... in every role and rule kind (each template names things on its own)
    for nm in ("self", "1abc"):
        ctx = [
            ("string_rule_two_fields", [Rule("S", Call("X", "s"), export=True), Rule("X", Seq(Call("A", "a"), Call("A", nm)), string=True), A()]),
            ("string_rule_one_field", [Rule("S", Call("X", "s"), export=True), Rule("X", Seq(Lit("c"), Call("A", nm)), string=True), A()]),
            ("string_rule_type_defined_later", [Rule("S", Call("X", "s"), export=True), Rule("X", Call(nm, "a"), string=True), Rule(nm, Lit("a"))]),
            ("field_in_closure", [Rule("S", Clo(Seq(Call("A", nm), Lit(","))), export=True), A()]),
            ("field_in_choice_position", [Rule("S", Choice(Call("A", nm), Call("A", "b")), export=True, position=True), A()]),
            ("field_in_memoized_rule", [Rule("S", Call("M", "m"), export=True), Rule("M", Opt(Call("A", nm)), memoize=True), A()]),
            ("field_in_leftrec_rule", [Rule("S", Call("L", "l"), export=True),
                                       Rule("L", Choice(Seq(Call("L", nm, boxed=True), Lit("x")), Lit("b")), leftrec=True)]),
            ("override_of_rule", [Rule("S", Call("O", "o"), export=True), Rule("O", Seq(Lit("("), Call(nm, "@"), Lit(")"))), Rule(nm, Lit("a"))]),
            ("enum_override_type", [Rule("S", Call("O", "o"), export=True), Rule("O", Choice(Call("A", "@"), Call(nm, "@"))), A(), Rule(nm, Lit("b"))]),
            ("char_rule_name", [Rule("S", Call(nm, "c"), export=True), CharRule(nm, [("range", "a", "b")])]),
            ("extern_rule_name", [Rule("S", Call(nm, "e"), export=True),
                                  ExternRule(nm, {"o": "digits", "path": "verif_common::oracles::ext_digits", "nullable": False})]),
            ("included_rule_name", [Rule("S", Seq(Lit("("), Inc(nm)), export=True), Rule(nm, Call("A", "a")), A()]),
            ("field_through_include", [Rule("S", Seq(Lit("("), Inc("I")), export=True), Rule("I", Call("A", nm)), A()]),
            ("unused_rule_name", [Rule("S", Call("A", "a"), export=True), A(), Rule(nm, Lit("z"))]),
            ("multi_type_field", [Rule("S", Choice(Call("A", nm), Call("B", nm)), export=True), A(), Rule("B", Lit("b"))]),
        ]
        for cn, rules in ctx:
            mk("R12_%s_%s" % (cn, nm), rules, "error", badident=True, answer_only=True)
    for nm in ("type", "match", "fn", "Box", "async", "try", "dyn"):
        mk("R12_ok_rule_named_%s" % nm, [Rule("S", Call(nm, "x"), export=True), Rule(nm, Lit("a"))], "code")
        mk("R12_ok_field_named_%s" % nm, [Rule("S", Call("A", nm), export=True), A()], "code")
    return out


FAMILIES["bad"] = fam_bad


# ----------------------------------------------------------------------------- F-term (terminals)

def fam_term(tier, seed):
    """every kind of terminal over characters chosen to separate near misses: case bits (c ^ 0x20),
    neighbours (c +- 1), punctuation next to the letters, control characters, multi-byte characters"""
    rnd = random.Random(seed * 7919 + 17)
    maxlen = 3 if tier == "quick" else 4
    out = []

    def near(chars):
        al = []
        for c in chars:
            o = ord(c)
            for x in (o, o ^ 0x20, o + 1, o - 1):
                if 0 < x < 0x110000 and not (0xD800 <= x <= 0xDFFF) and chr(x) not in al:
                    al.append(chr(x))
        return al

    lits = ["a", "Z", "_", "{", "@", "1", "\n", "~", "\x7f", "é", "ab", "a_", "a{", "@a", "a1", "a\nb", "z~", "_x_", "Az",
            "aé", "[]", "A-Z", "`", "^_", "'", '"', "\\", "#", ";", "|", "\x00", "a\x00b", "'\"", "\\n", "#;", "\U0010ffff", "\ufeff"]
    for i, l in enumerate(lits):
        for ci in (False, True):
            if ci and not l.isascii():
                continue
            for body_name, mk in (("lit", lambda t: t), ("lit_eoi", lambda t: Seq(t, Eoi())),
                                  ("clo_lit", lambda t: Seq(Clo(t), Opt(Call("char", "c"))))):
                body = mk(Lit(l, ci=ci))
                g = Grammar("term_%04d" % len(out), [Rule("S", body, export=True, position=True, no_skip_ws=True)], root="S",
                            maxlen=max(maxlen, min(len(l) + 1, 4)), meta={"shape": "%s_%s%r" % (body_name, "i" if ci else "", l)})
                al = near(l)
                g.alpha = al[:5] if tier == "quick" else al[:6]
                # make sure the literal itself and its case-swapped spelling are tried whatever the alphabet cut
                flipped = "".join(chr(ord(c) ^ 0x20) if ord(c) < 128 else c for c in l)
                g.extra = [list(l), list(l.swapcase()), list(l + l), list(l.upper()), list(l.lower()), list(flipped)]
                g.alpha = list(dict.fromkeys(g.alpha + [c for x in g.extra for c in x]))[:7]
                if tier == "quick" and len(g.alpha) > 5:
                    g.maxlen = 2
                add_extras(g, rnd, 10 if tier == "quick" else 50, 3, 6)
                if well_formed(g):
                    out.append(g)
    # long literals: a comparison done in machine words, or on a prefix only, shows at one position of one length
    base = "aBcdEfgHijkLmnopQrstuvWxyz0123456789_"
    base = base + base.swapcase() + base + base.lower()
    for ln in ((4, 8, 9, 16, 17, 33, 65, 70, 130) if tier == "quick" else (4, 5, 7, 8, 9, 15, 16, 17, 24, 31, 32, 33, 37, 63, 64, 65, 70, 127, 128, 130)):
        l = base[:ln]
        for ci in (False, True):
            g = Grammar("term_%04d" % len(out), [Rule("S", Seq(Lit(l, ci=ci), Opt(Call("char", "c"))), export=True, position=True, no_skip_ws=True)],
                        root="S", maxlen=1, meta={"shape": "long_lit_%s%d" % ("i" if ci else "", ln)})
            g.alpha = ["a", "B"]
            g.extra = [list(l), list(l.swapcase()), list(l[:-1]), list(l + "a"), list(l.lower()), list(l.upper())]
            for k_ in range(ln):
                for repl in (chr(ord(l[k_]) ^ 0x20), chr(ord(l[k_]) + 1), "é") + (("\u20ac", "\U0001F600") if k_ % 3 == ln % 3 or k_ >= ln - 4 else ()):
                    g.extra.append(list(l[:k_] + repl + l[k_ + 1:]))
            if ln > 40:
                # the first 64 bytes right, the rest other characters of other widths
                for tail in ("\u20ac" * 3, "a\u20ac\u20ac", "\u00e9" * (ln - 64), "\U0001F600\u20ac", l[64:][::-1]):
                    g.extra.append(list(l[:64] + tail))
            if well_formed(g):
                out.append(g)
    ranges = [("a", "z"), ("A", "Z"), ("0", "9"), ("@", "["), ("`", "{"), ("\x00", "\x1f"), ("~", "\x80"), ("z", "é"),
              ("a", "a"), ("b", "a"), ("\x7f", "\u0800"), ("\u07ff", "\uffff"), ("\ud7ff", "\ue000"), ("\uffff", "\U00010000"),
              ("\U00010000", "\U0010ffff"), ("\x01", "\U0010fffe"), ("\x00", "a"), ("\x00", "\x00"), ("\U0010ffff", "\U0010ffff"),
              ("\ue000", "\U0010ffff"), ("\x00", "\ud7ff"), ("'", "\\")]
    ranges += [("\u00c0", "\u00ff"), ("\u0410", "\u044f"), ("\u0080", "\u07ff"), ("\u0800", "\uffff"), ("\u3040", "\u309f"),
               ("\U0001F600", "\U0001F64F")]
    for lo, hi in ranges:
        body = Seq(Range(lo, hi), Opt(Range(lo, hi)))
        g = Grammar("term_%04d" % len(out), [Rule("S", body, export=True, position=True, no_skip_ws=True)], root="S",
                    maxlen=maxlen, meta={"shape": "range_%r_%r" % (lo, hi)})
        g.alpha = near([lo, hi])[:6]
        if ord(lo) >= 0x80:
            # characters of every other width, among them ones whose first bytes decode into the range when the
            # width is ignored (E3 81 82 ~ C3 81, F0 9F 98 80 ~ D0 9F / E0 9F 98)
            g.alpha = g.alpha[:4] + ["\u3042", "\U0001F600", "\u00c1", "\u041f", "a"]
            g.maxlen = 2
        add_extras(g, rnd, 10, 3, 6)
        if well_formed(g):
            out.append(g)
    # case-insensitive literals with letters written as escapes (every escape form, both cases)
    for nm, text, lit in (("x41_b", "i'\\x41b'", "Ab"), ("u0042", "i\"\\u0042\\u{62}z\"", "Bbz"), ("U_upper", "i'0\\U00000058'", "0X"),
                          ("lower_escape", "i'\\x61\\x5a'", "aZ")):
        g = Grammar("term_%04d" % len(out), [Rule("S", Seq(Lit(lit, ci=True), Opt(Call("char", "c"))), export=True, position=True, no_skip_ws=True)],
                    root="S", maxlen=2, meta={"shape": "ci_escaped_" + nm,
                                              "text": "@export\n@position\n@no_skip_ws\nS = %s [c:char];\n" % text})
        g.alpha = list(dict.fromkeys(list(lit.lower()) + list(lit.upper())))[:5]
        g.extra = [list(lit), list(lit.lower()), list(lit.upper()), list(lit.swapcase()), list(lit + "a")]
        if well_formed(g):
            out.append(g)
    # @char classes: overlapping and descending parts, single characters next to ranges, a class inside a class
    classes = [("overlap", [("range", "a", "m"), ("range", "g", "z")]), ("descending", [("range", "x", "z"), ("range", "a", "c"), ("lit", "m")]),
               ("touching", [("range", "a", "c"), ("range", "d", "f")]), ("one_apart", [("range", "a", "c"), ("range", "e", "g")]),
               ("lit_inside_range", [("range", "a", "z"), ("lit", "m"), ("lit", "A")]), ("single", [("lit", "q")]),
               ("ends", [("lit", "\x00"), ("lit", "\U0010ffff"), ("range", "\x7f", "\x80")]),
               ("nested", [("ref", "D"), ("lit", "_"), ("range", "0", "1")])]
    for cn, parts in classes:
        rules = [Rule("S", Seq(Call("C", "c"), Opt(Call("C", "d")), Opt(Call("char", "e"))), export=True, position=True, no_skip_ws=True),
                 CharRule("C", parts), CharRule("D", [("range", "a", "b"), ("lit", "y")])]
        g = Grammar("term_%04d" % len(out), rules, root="S", maxlen=2, meta={"shape": "class_" + cn})
        chars = [x for pt in parts if pt[0] != "ref" for x in pt[1:]]
        g.alpha = near(chars + (["a", "y"] if cn == "nested" else []))[:8]
        add_extras(g, rnd, 10, 3, 5)
        if well_formed(g):
            out.append(g)
    return out


FAMILIES["term"] = fam_term


# ----------------------------------------------------------------------------- F-routes (C16)

def fam_routes(tier, seed):
    """grammars where an unordered container in the generator would show: several field types, enum
    variants, several cache entries, several rules; no user functions (they go through peginate! too)"""
    out = []

    def mk(name, rules, alpha, maxlen=3, **meta):
        m = {"shape": name, "flags": "macro"}
        m.update(meta)
        g = Grammar("rt_%04d" % len(out), rules, maxlen=maxlen, meta=m)
        g.alpha = alpha
        add_extras(g, random.Random(seed * 7919 + 60 + len(out)), 10 if tier == "quick" else 60, 4, 9)
        out.append(g)

    mk("many_types", [Rule("S", Clo(Choice(Call("Zed", "f"), Call("Alpha", "f"), Call("Mid", "f"), Call("char", "f"), Call("Beta", "g", boxed=True))), export=True),
                      Rule("Zed", Lit("z")), Rule("Alpha", Lit("a"), position=True), Rule("Mid", Seq(Lit("m"), Opt(Call("Alpha", "a")))),
                      Rule("Beta", Lit("b"), memoize=True)], ["z", "a", "m", "b", " "], maxlen=3)
    mk("caches", [Rule("S", Choice(Seq(Call("Q", "q"), Lit("x")), Seq(Call("P", "p"), Lit("y")), Call("R", "r")), export=True, no_skip_ws=True),
                  Rule("Q", Lit("a"), memoize=True, no_skip_ws=True), Rule("P", Lit("a"), memoize=True, no_skip_ws=True),
                  Rule("R", Choice(Seq(Call("R", "l", boxed=True), Lit("a")), Lit("a")), leftrec=True, no_skip_ws=True)],
       ["a", "x", "y"], maxlen=4)
    mk("enum_override", [Rule("S", Seq(Call("E", "e"), Clo(Call("E", "rest"))), export=True),
                         Rule("E", Choice(Call("Yy", "@"), Call("Xx", "@", boxed=True), Call("Ww", "@"))),
                         Rule("Yy", Lit("y")), Rule("Xx", Lit("x")), Rule("Ww", Lit("w"), string=True)], ["y", "x", "w", " "])
    mk("strings_chars", [Rule("S", Seq(Call("Id", "id"), Opt(Seq(Lit("="), Call("Num", "n"))), Eoi()), export=True, position=True),
                         Rule("Id", Clo(Call("IdChar"), plus=True), string=True, no_skip_ws=True),
                         CharRule("IdChar", [("range", "a", "b"), ("lit", "_")]),
                         Rule("Num", Clo(Range("0", "1"), plus=True), string=True, no_skip_ws=True, position=True)],
       ["a", "_", "=", "1", " "], maxlen=3)
    mk("includes", [Rule("S", Seq(Inc("Pair"), Clo(Seq(Lit(","), Inc("Pair")))), export=True),
                    Rule("Pair", Seq(Call("K", "k"), Lit(":"), Call("V", "v"))), Rule("K", Lit("k")), Rule("V", Lit("v"))],
       ["k", "v", ":", ",", " "], maxlen=3)
    mk("multi_enum_fields", [Rule("S", Seq(Choice(Call("Xx", "a"), Call("Yy", "a")), Choice(Call("Xx", "b"), Call("Yy", "b")),
                                           Clo(Choice(Call("Xx", "c"), Call("Yy", "c"), Call("char", "c"))),
                                           Opt(Choice(Call("Yy", "d", boxed=True), Call("Xx", "d")))), export=True),
                             Rule("T", Seq(Choice(Call("Xx", "p"), Call("Yy", "p")), Choice(Call("Yy", "q"), Call("Xx", "q")))),
                             Rule("Xx", Lit("x")), Rule("Yy", Lit("y"))], ["x", "y", " "])
    mk("keywords", [Rule("S", Seq(Call("type", "fn"), Opt(Call("match", "loop"))), export=True),
                    Rule("type", Lit("t")), Rule("match", Lit("m"))], ["t", "m", " "])
    # a grammar file with CR LF line endings, one of them inside a literal: every route reads the text verbatim
    # (not through peginate!: rustc itself normalises CR LF inside the macro's string argument)
    mk("crlf_text", [Rule("S", Seq(Lit("a\r\nb"), Opt(Call("T", "t"))), export=True, no_skip_ws=True),
                     Rule("T", Choice(Lit("\r\n"), Lit("\n")), string=True, no_skip_ws=True)],
       ["a", "b", "\r", "\n"], maxlen=2, flags="-",
       text="@export\r\n@no_skip_ws\r\nS = 'a\r\nb' [t:T];\r\n# comment\r\n@string\r\n@no_skip_ws\r\nT = \"\r\n\" |\r\n '\\n';\r\n")
    # user functions reached by path from every route (library functions: generic over the rule type)
    P = "verif_common::oracles::"
    always = {"o": "always", "path": P + "chk_always", "name": P + "chk_always"}
    even = {"o": "str_even", "path": P + "chk_str_even", "name": P + "chk_str_even"}
    mk("user_functions", [Rule("S", Seq(Call("N", "n"), Opt(Call("T", "t")), Opt(Call("O", "o")), Opt(Call("D", "d")), Opt(Call("C", "c"))),
                               export=True, checks=[always]),
                          Rule("N", Seq(Lit("a"), Opt(Call("T", "t"))), checks=[always, always]),
                          Rule("T", Clo(Lit("b"), plus=True), string=True, no_skip_ws=True, checks=[even]),
                          Rule("O", Choice(Call("N", "@"), Call("T", "@")), checks=[always]),
                          Rule("M", Seq(Lit("("), Call("N", "@"), Lit(")")), checks=[always], memoize=True),
                          ExternRule("D", {"o": "digits", "path": P + "ext_digits", "nullable": False}),
                          CharRule("C", [("range", "a", "c")], checks=[{"o": "always", "path": P + "cchk_always", "name": P + "cchk_always"}])],
       ["a", "b", "1", " "], maxlen=3)
    return out


FAMILIES["routes"] = fam_routes


# ----------------------------------------------------------------------------- F-types (C03)

RUST_KEYWORDS = ["as", "break", "const", "continue", "else", "enum", "extern", "false", "fn", "for", "if",
                 "impl", "in", "let", "loop", "match", "mod", "move", "mut", "pub", "ref", "return", "self",
                 "Self", "static", "struct", "super", "trait", "true", "type", "unsafe", "use", "where",
                 "while", "async", "await", "dyn", "abstract", "become", "box", "do", "final", "macro",
                 "override", "priv", "typeof", "unsized", "virtual", "yield", "try"]
RAW_OK = [k for k in RUST_KEYWORDS if k not in ("self", "Self", "super", "crate")]
TEMPLATE_LOCALS = ["state", "global", "result", "r", "parsed", "cache_key", "iterations", "new_state", "err", "ok_result",
                   "best_result", "new_result", "cached", "string", "settings", "s", "user_context"]


def fam_types(tier, seed):
    import copy
    rnd = random.Random(seed * 7919 + 23)
    out = []

    def add(g, derives=None):
        g.id = "ty_%04d" % len(out)
        g.meta = dict(g.meta)
        g.meta["flags"] = "typesonly"
        g.extra = []
        g.maxlen = 0
        if derives is not None:
            g.meta["derives"] = ",".join(derives)
            g.meta["derives_list"] = list(derives)
        out.append(g)

    # 1. every field-plumbing shape of the fields family
    base = fam_fields(tier, seed)
    for g in (base if tier != "quick" else base[:120]):
        add(copy.deepcopy(g))
    # 1b. every nesting of three constructs over a field, a second field and a literal (the templates inline
    # some constructs into their parent and generate modules for others: the combination decides): all of them in
    # the thorough tier, a seeded sample in the quick tier
    t_atoms = [("xA", lambda: Call("A", "x")), ("c", lambda: Lit("c")), ("yB", lambda: Call("B", "y"))]
    nest3 = []
    for (o1, f1), (ob, fb), (o2, f2) in itertools.product(F_UNARY, BINARY, F_UNARY):
        for (an, af), (bn, bf) in itertools.product(t_atoms, t_atoms):
            for swap in (False, True):
                nest3.append(("n3_%s(%s(%s_%s,%s)%s)" % (o1, ob, o2, an, bn, "r" if swap else ""),
                              (lambda f1=f1, fb=fb, f2=f2, af=af, bf=bf, swap=swap: f1(fb(bf(), f2(af())) if swap else fb(f2(af()), bf())))))
    for (o1, f1), (ob, fb), (oc, fc) in itertools.product(F_UNARY, BINARY, BINARY):
        for (an, af), (bn, bf) in itertools.product(t_atoms, t_atoms):
            for swap in (False, True):
                nest3.append(("n3_%s(%s(%s_%s_%s),c)%s" % (oc, o1, ob, an, bn, "r" if swap else ""),
                              (lambda f1=f1, fb=fb, fc=fc, af=af, bf=bf, swap=swap:
                               fc(Lit("c"), f1(fb(af(), bf()))) if swap else fc(f1(fb(af(), bf())), Lit("c")))))
    for name, th in (nest3 if tier != "quick" else rnd.sample(nest3, 120)):
        body = th()
        if not has_field(body):
            continue
        g = Grammar("x", fields_rules(Seq(Lit("a"), body, Lit("c"))), root="S", meta={"shape": name})
        g.alpha = ["a"]
        add(g)
    # 2. rule kinds
    P = "verif_common::oracles::"
    kinds = [
        ("kinds", [Rule("S", Seq(Call("Str", "a"), Call("StrPos", "b"), Call("Cls", "c"), Call("ExtS", "d"), Call("ExtC", "e"),
                             Call("Unit", "f"), Call("Pos", "g"), Call("OvS", "h"), Call("OvE", "i"), Call("OvB", "j"), Call("OvO", "k"),
                             Call("OvV", "l"), Call("char", "m"), Call("StrOv", "n"), Call("StrFld", "o")), export=True),
                   Rule("StrOv", Seq(Opt(Lit("-")), Call("Unit", "@")), string=True),
                   Rule("StrFld", Seq(Call("Unit", "x"), Clo(Call("Str", "y"))), string=True),
                   Rule("Str", Lit("a"), string=True), Rule("StrPos", Lit("a"), string=True, position=True),
                   CharRule("Cls", [("lit", "a")]),
                   ExternRule("ExtS", {"o": "digits", "path": P + "ext_digits", "nullable": False}),
                   ExternRule("ExtC", {"o": "upper", "path": P + "ext_upper", "ret": "char", "nullable": False}),
                   Rule("Unit", Lit("u")), Rule("Pos", Seq(Lit("p"), Opt(Call("Unit", "u"))), position=True),
                   Rule("OvS", Seq(Lit("("), Call("Unit", "@"), Lit(")"))),
                   Rule("OvE", Choice(Call("Unit", "@"), Call("Str", "@"), Call("char", "@"))),
                   Rule("OvB", Choice(Call("Unit", "@", boxed=True), Call("Pos", "@"))),
                   Rule("OvO", Opt(Call("Unit", "@"))), Rule("OvV", Clo(Call("Unit", "@", boxed=True)))]),
        ("boxed_builtin_char", [Rule("S", Seq(Call("char", "c", boxed=True), Opt(Call("char", "o", boxed=True)), Clo(Call("char", "v", boxed=True)),
                                              Call("O", "ov"), Call("M", "m")), export=True),
                                Rule("O", Seq(Lit("("), Call("char", "@", boxed=True), Lit(")"))),
                                Rule("M", Choice(Call("char", "x", boxed=True), Call("Unit", "x")))
                                , Rule("Unit", Lit("u"))]),
        ("recursive_box", [Rule("S", Seq(Lit("("), Opt(Call("S", "inner", boxed=True)), Lit(")"), Clo(Call("S", "more"))), export=True)]),
        ("recursive_enum", [Rule("E", Choice(Call("Add", "@", boxed=True), Call("Num", "@")), export=True),
                            Rule("Add", Seq(Lit("+"), Call("E", "l"), Call("E", "r"))), Rule("Num", Lit("1"), string=True)]),
        ("leftrec_types", [Rule("E", Choice(Seq(Call("E", "l", boxed=True), Lit("+"), Call("N", "r")), Call("N", "r")), export=True, leftrec=True, position=True),
                           Rule("N", Lit("n"), memoize=True)]),
        ("position_enum", [Rule("S", Call("O", "o"), export=True), Rule("O", Choice(Call("X", "@"), Call("Y", "@")), position=True),
                           Rule("X", Lit("x"), position=True), Rule("Y", Lit("y"), string=True, position=True)]),
    ]
    for name, rules in kinds:
        g = Grammar("x", rules, meta={"shape": name})
        g.alpha = ["a"]
        add(g)
    # 3. names: Rust keywords as rule and field names, and the generator's own local names as field names
    kws = RAW_OK if tier != "quick" else sample(rnd, RAW_OK, 12) + ["type", "match", "fn", "box", "async", "try", "impl"]
    for kw in dict.fromkeys(kws):
        g = Grammar("x", [Rule("S", Seq(Call(kw, kw), Opt(Call(kw, "o")), Clo(Call("Other", kw))), export=True),
                          Rule(kw, Lit("k"), position=True), Rule("Other", Call(kw, "@"))], meta={"shape": "keyword_" + kw})
        g.alpha = ["k"]
        add(g)
    # every keyword at once, in chunks: rule names, field names, override variants, multi-type field enums
    for i in range(0, len(RAW_OK), 8):
        ch = RAW_OK[i:i + 8]
        rules = [Rule("S", Seq(*([Call(k, k) for k in ch] + [Call("Any", "any"), Clo(Choice(*[Call(k, ch[0]) for k in ch[:3]]))])), export=True),
                 Rule("Any", Choice(*[Call(k, "@") for k in ch]), position=True)]
        rules += [Rule(k, Lit("k%d" % j), position=True) for j, k in enumerate(ch)]
        g = Grammar("x", rules, meta={"shape": "keywords_chunk_%d" % (i // 8)})
        g.alpha = ["k"]
        add(g)
    # rule names that differ only in case or in the placement of underscores, on every kind of rule that gets
    # generated items named after it (type, module, parse function, cache entry)
    twins = ["ExprList", "Expr_list", "exprList", "Exprlist", "EXPRLIST", "expr_list", "Ab", "ab", "AB", "A_b", "a_b", "A__b"]
    for variant in ("memoize", "leftrec", "plain", "string", "position"):
        rules = [Rule("S", Seq(*[Call(n_, "f%d" % i) for i, n_ in enumerate(twins)]), export=True)]
        for i, n_ in enumerate(twins):
            body = Choice(Seq(Call(n_, "l", boxed=True), Lit("x")), Lit("b%d" % i)) if variant == "leftrec" else Seq(Lit("t%d" % i), Opt(Call("Unit", "u")))
            rules.append(Rule(n_, body, memoize=(variant == "memoize"), leftrec=(variant == "leftrec"), string=(variant == "string"),
                              position=(variant == "position")))
        rules.append(Rule("Unit", Lit("u")))
        g = Grammar("x", rules, meta={"shape": "name_twins_" + variant})
        g.alpha = ["a"]
        add(g)
    # a field named like a rule: fine for structs, aliases and enums; a unit struct of that name is read as a constant
    # in the templates' binding patterns (known finding)
    for tname, trule in (("unit", Rule("A", Lit("a"))), ("struct", Rule("A", Seq(Lit("a"), Opt(Call("B", "b"))))),
                         ("string", Rule("A", Lit("a"), string=True)), ("enum", Rule("A", Choice(Call("B", "@"), Call("C", "@"))))):
        for shape, body in (("choice", Seq(Choice(Call("A", "A"), Lit("c")), Call("A", "y"))), ("clo", Clo(Seq(Call("A", "A"), Lit(",")))),
                            ("single", Seq(Lit("("), Call("A", "A"), Lit(")")))):
            g = Grammar("x", [Rule("S", body, export=True), trule, Rule("B", Lit("b")), Rule("C", Lit("c"), string=True)],
                        meta={"shape": "field_like_%s_rule_%s" % (tname, shape),
                              "local_name": "field-named-like-unit-rule" if tname == "unit" else "field-named-like-rule"})
            g.alpha = ["a"]
            add(g)
    for nm in TEMPLATE_LOCALS:
        for shape, body in (("seq", lambda n: Seq(Call("A", n), Lit(","), Call("B", "other"))),
                            ("clo", lambda n: Seq(Clo(Seq(Call("A", n), Lit(","))), Opt(Call("B", "other")))),
                            ("single", lambda n: Seq(Lit("("), Call("A", n), Lit(")")))):
            g = Grammar("x", [Rule("S", body(nm), export=True, position=(shape == "seq")), Rule("A", Lit("a")), Rule("B", Lit("b"))],
                        meta={"shape": "local_%s_%s" % (nm, shape), "local_name": nm})
            g.alpha = ["a"]
            add(g)
    # 4. derive sets
    for dv in (["Debug", "Clone"], ["Debug", "Clone", "PartialEq", "Eq"], ["Debug"], [], ["Clone"], ["Clone", "PartialEq", "Eq", "Hash"]):
        rules = copy.deepcopy(kinds[0][1])
        for r in rules:
            if r.kind == "rule" and "Clone" not in dv:
                r.memoize = False
        g = Grammar("x", rules, meta={"shape": "derives_" + "_".join(dv)})
        g.alpha = ["a"]
        add(g, derives=dv)
        # the growth cache of a @leftrec rule holds results like a @memoize cache does
        if "Clone" in dv:
            lr = copy.deepcopy(kinds[3][1])
            g = Grammar("x", lr, meta={"shape": "derives_leftrec_" + "_".join(dv)})
            g.alpha = ["n"]
            add(g, derives=dv)
    return out


FAMILIES["types"] = fam_types


# ----------------------------------------------------------------------------- F-layout / F-esc / Meta texts (C12)

def fam_layout(tier, seed):
    """grammars of the other families, spelled wildly (whitespace, comments, quotes, escapes, parentheses,
    directive order): the parsers generated from the text must behave as the AST says"""
    import copy
    import layout
    rnd = random.Random(seed * 7919 + 31)
    out = []
    n = 5 if tier == "quick" else 40
    for fam in ("ops", "fields", "ws", "lr", "inc", "user", "uni", "pos", "names"):
        src = FAMILIES[fam](tier, seed)
        for g in sample(rnd, src, n):
            h = copy.deepcopy(g)
            h.id = "lay_%04d" % len(out)
            h.meta = dict(g.meta)
            h.meta["shape"] = "%s:%s" % (fam, g.meta.get("shape"))
            h.meta["text"] = layout.layout_text(g, rnd, "wild")
            if h.meta.get("user_rs"):
                h.meta["user_rs"] = h.meta["user_rs"]
                # user function paths mention the grammar id of the source family: re-point them
                h.meta["text"] = h.meta["text"].replace("g_" + g.id, "g_" + h.id)
                for r in h.rules:
                    for c in getattr(r, "checks", []):
                        c["path"] = c["path"].replace("g_" + g.id, "g_" + h.id)
                        c["name"] = c["name"].replace("g_" + g.id, "g_" + h.id)
            h.real_extra = []
            if tier == "quick":
                h.maxlen = min(h.maxlen, 3)
                h.extra = h.extra[:6]
            out.append(h)
    # CR LF line endings everywhere, one of them inside a literal and one inside a range-free @char rule's neighbourhood
    g = Grammar("lay_%04d" % len(out), [Rule("S", Seq(Lit("a\r\nb"), Opt(Call("T", "t")), Opt(Call("C", "c"))), export=True, no_skip_ws=True),
                                        Rule("T", Choice(Lit("\r\n"), Lit("\n")), string=True, no_skip_ws=True),
                                        CharRule("C", [("lit", "\r"), ("lit", "x")])], root="S", maxlen=2,
                meta={"shape": "crlf_text",
                      "text": "@export\r\n@no_skip_ws\r\nS = 'a\r\nb' [t:T] [c:C];\r\n# comment\r\n@string\r\n@no_skip_ws\r\nT = \"\r\n\" |\r\n '\\n';\r\n@char\r\nC = '\\r' | 'x';\r\n"})
    g.alpha = ["a", "b", "\r", "\n"]
    g.extra = [list("a\r\nb"), list("a\r\nb\r\n"), list("a\r\nb\n"), list("a \nb"), list("a\r\nb\r")]
    out.append(g)
    return out


def fam_esc(tier, seed):
    """every escape form of doc/syntax.md, at the boundaries of its value range"""
    out = []
    cases = [("\\n", 10), ("\\r", 13), ("\\t", 9), ("\\\\", 92), ("\\'", 39), ('\\"', 34),
             ("\\x00", 0), ("\\x41", 0x41), ("\\x7f", 0x7F), ("\\x7F", 0x7F), ("\\x80", 0x80), ("\\xe9", 0xE9), ("\\xFF", 0xFF), ("\\xfF", 0xFF),
             ("\\u0000", 0), ("\\u0041", 0x41), ("\\u00e9", 0xE9), ("\\u07FF", 0x7FF), ("\\u0800", 0x800), ("\\ud7ff", 0xD7FF),
             ("\\uE000", 0xE000), ("\\uffff", 0xFFFF), ("\\u9053", 0x9053),
             ("\\U00000041", 0x41), ("\\U0000e000", 0xE000), ("\\U00010000", 0x10000), ("\\U0001F600", 0x1F600), ("\\U0010FFFF", 0x10FFFF),
             ("\\u{0}", 0), ("\\u{41}", 0x41), ("\\u{e9}", 0xE9), ("\\u{0000E9}", 0xE9), ("\\u{d7ff}", 0xD7FF), ("\\u{10000}", 0x10000),
             ("\\u{10FFFF}", 0x10FFFF), ("\\u{1f600}", 0x1F600), ("\\u{A}", 10)]
    if tier != "quick":
        cases += [("\\x%02x" % v, v) for v in range(0, 256, 7)] + [("\\u%04X" % v, v) for v in range(0x100, 0xD800, 1777)]
    for sp, cp in cases:
        for form in ("lit", "str", "range", "class", "ci"):
            if form == "ci" and cp > 127:
                continue
            near = [c for c in (cp, cp + 1, cp - 1, cp ^ 0x20) if 0 <= c <= 0x10FFFF and not (0xD800 <= c <= 0xDFFF)]
            alpha = [chr(c) for c in dict.fromkeys(near)][:3] + ["x"]
            if form == "lit":
                body, text = Lit(None, cps=[cp]), "S = '%s';" % sp
            elif form == "str":
                body, text = Lit(None, cps=[120, cp, 120]), 'S = "x%sx";' % sp
            elif form == "ci":
                body, text = Lit(None, ci=True, cps=[cp, 120]), "S = i'%sx';" % sp
            elif form == "range":
                hi = min(cp + 1, 0x10FFFF) if not (0xD800 <= cp + 1 <= 0xDFFF) else cp
                body, text = Range(cp, hi), "S = '%s'..'%s';" % (sp, "\\u{%x}" % hi)
            else:
                body, text = Call("C", "c"), "S = c:C;\n@char\nC = '%s' | 'x';" % sp
            if '"' in sp and form == "str":
                text = "S = 'x%sx';" % sp
            rules = [Rule("S", body, export=True, no_skip_ws=True, position=True)]
            if form == "class":
                rules.append(CharRule("C", [("lit", cp), ("lit", "x")]))
            g = Grammar("esc_%04d" % len(out), rules, root="S", maxlen=2 if form != "str" else 3,
                        meta={"shape": "%s %s" % (form, sp), "text": "@export\n@no_skip_ws\n@position\n" + text + "\n"})
            g.alpha = list(dict.fromkeys(alpha))
            if form == "str":
                g.extra = [["x", chr(cp), "x"]]
                g.maxlen = 1
            out.append(g)
    return out


FAMILIES["layout"] = fam_layout
FAMILIES["esc"] = fam_esc


def meta_sources():
    """small grammars that together use every element of the documented syntax (for the Meta run of C12)"""
    P = "crate::m::"
    chk = lambda n: {"o": "unknown", "path": P + n, "name": P + n}  # noqa: E731
    return [
        Grammar("m0", [Rule("S", Seq(Lit("a"), Call("B", "x"), Call("C", "y", boxed=True), Call("D")), export=True, position=True),
                       Rule("B", Choice(Call("C", "@"), Seq(Lit("("), Call("D", "@", boxed=True), Lit(")"))), no_skip_ws=True),
                       Rule("C", Lit("c"), string=True, memoize=True), Rule("D", Eoi(), leftrec=True)]),
        Grammar("m1", [Rule("S", Choice(Seq(Opt(Lit("ab")), Clo(Lit("c", ci=True)), Clo(Range("a", "z"), plus=True)),
                                        Seq(Neg(Lit("x")), Pos(Seq(Lit("y"), Call("char"))), Inc("T")), Seq()), export=True),
                       Rule("T", Seq(Call("char", "c"), Lit("\n\t\\'\"é\x7f", ci=False)))]),
        Grammar("m2", [Rule("S", Seq(Call("K", "k"), Call("E", "e"), Call("X", "x")), export=True, checks=[chk("one"), chk("two")]),
                       CharRule("K", [("range", "a", "f"), ("lit", "_"), ("ref", "K2")], checks=[chk("kc"), chk("kd"), chk("ke")]),
                       CharRule("K2", [("lit", "é"), ("range", "0", "9")]),
                       ExternRule("E", {"o": "unknown", "path": P + "ext", "ret": None, "nullable": True}),
                       ExternRule("X", {"o": "unknown", "path": "crate::Point::parse", "ret": "crate::Point", "nullable": True})]),
        Grammar("m3", [Rule("Whitespace", Clo(Choice(Lit(" "), Call("Comment"))), no_skip_ws=True),
                       Rule("Comment", Seq(Lit("#"), Clo(Seq(Neg(Lit("\n")), Call("char"))), Lit("\n")), no_skip_ws=True),
                       Rule("S", Seq(Neg(Seq(Call("I"), Eoi())), Clo(Seq(Call("I", "m"), Opt(Lit(","))), plus=True)), export=True),
                       Rule("I", Clo(Choice(Range("0", "9"), Lit("_")), plus=True), string=True, no_skip_ws=True, position=True)]),
        Grammar("m5", [Rule("S", Choice(Seq(), Lit("a"), Lit("b")), export=True),
                       Rule("T", Seq(Choice(Seq(), Call("S", "s")), Opt(Choice(Seq(), Lit("x"))), Clo(Choice(Seq(), Seq(), Lit("y"))),
                                     Choice(Seq(), Seq(Neg(Choice(Seq(), Lit("z"))), Call("S", "u", boxed=True)))))]),
        Grammar("m6", [Rule("S", Seq(Call("_Tail_1", "_first"), Call("R_2__x", "f_1"), Opt(Call("lower", "F")), Clo(Call("X9", "_")), Call("_", "under")),
                            export=True),
                       Rule("_Tail_1", Lit("a")), Rule("R_2__x", Lit("b"), string=True), Rule("lower", Call("X9", "@")),
                       Rule("X9", Lit("9")), Rule("_", Lit("_")), CharRule("_c", [("lit", "_"), ("ref", "_d")]), CharRule("_d", [("range", "0", "9")])]),
        Grammar("m4", [Rule("S", Choice(Seq(Choice(Lit("a"), Lit("b")), Choice(Seq(Lit("c"), Lit("d")), Lit("e"))), Opt(Choice(Lit("f"), Seq()))),
                            export=True)]),
    ]


# ----------------------------------------------------------------------------- F-userctx (C14 with a user context type)

def fam_userctx(tier, seed):
    """the library-function shapes of F-user compiled with `user_context_type`: every check / extern function
    takes the context as an extra argument; the number of calls that received it is observed"""
    import copy
    out = []
    for g in fam_user(tier, seed):
        if g.meta.get("user_rs"):
            continue                  # per-grammar generated checks have no context variant
        if any(r.kind == "char" and r.checks for r in g.rules):
            continue                  # @char checks are never given the context
        h = copy.deepcopy(g)
        h.id = "uctx_%04d" % len(out)
        h.meta = dict(g.meta)
        h.meta["ctx"] = "verif_common::Ctx"
        for r in h.rules:
            if r.kind == "extern":
                r.fn = dict(r.fn)
                r.fn["path"] += "_ctx"
            if hasattr(r, "checks"):
                r.checks = [dict(c, path=c["path"] + "_ctx", name=c["path"] + "_ctx") for c in r.checks]
        out.append(h)
    return out


FAMILIES["userctx"] = fam_userctx


# ----------------------------------------------------------------------------- F-rand (random deep grammars)

def rand_grammar(rnd, gid, tier):
    """a random grammar mixing every feature the machine models, accepted and well-formed by construction:
    rules only refer to later rules (no left recursion), lookahead bodies and closures get field-less /
    consuming bodies, no overrides next to named fields, @string rules are not exported"""
    P = "verif_common::oracles::"
    nrules = rnd.randint(2, 4)
    names = ["S"] + ["R%d" % i for i in range(1, nrules)]
    fixed = ["T", "C", "D", "O", "A", "B", "TS", "L", "L", "X"]   # always available helper rules (defined below)
    fields = ["x", "y", "z"]
    lits = ["a", "b", "ab", "c", "ba"]

    def atom(i, allow_field, depth):
        k = rnd.random()
        if k < 0.22:
            return Lit(rnd.choice(lits), ci=rnd.random() < 0.15)
        if k < 0.30:
            return Range("a", rnd.choice(["b", "c"]))
        if k < 0.36:
            return Eoi() if rnd.random() < 0.3 else Lit(rnd.choice(lits))
        targets = names[i + 1:] + fixed + ["char"]
        t = rnd.choice(targets)
        if allow_field and rnd.random() < 0.75:
            return Call(t, rnd.choice(fields), boxed=(rnd.random() < 0.2 and t != "char"))
        return Call(t)

    def consuming_atom(i, allow_field):
        for _ in range(20):
            a = atom(i, allow_field, 0)
            if isinstance(a, Eoi) or (isinstance(a, Lit) and a.s == ""):
                continue
            return a
        return Lit("a")

    def expr(i, depth, allow_field):
        if depth <= 0 or rnd.random() < 0.25:
            return atom(i, allow_field, depth)
        k = rnd.random()
        if k < 0.32:
            return Seq(*[expr(i, depth - 1, allow_field) for _ in range(rnd.randint(2, 3))])
        if k < 0.56:
            alts = [expr(i, depth - 1, allow_field) for _ in range(rnd.randint(2, 3))]
            k2 = rnd.random()
            if k2 < 0.2:
                alts.append(Seq())                 # an empty last alternative: the choice is nullable
            elif k2 < 0.26:
                alts.insert(rnd.randint(0, len(alts) - 1), Seq())   # ... first or in the middle: the rest is unreachable
            return Choice(*alts)
        if k < 0.68:
            return Opt(expr(i, depth - 1, allow_field))
        if k < 0.84:
            # closure bodies must consume: a sequence starting with a consuming atom
            body = Seq(consuming_atom(i, allow_field), *([expr(i, depth - 2, allow_field)] if depth > 1 and rnd.random() < 0.5 else []))
            return Clo(body, plus=rnd.random() < 0.3)
        if k < 0.92:
            return (Neg if rnd.random() < 0.6 else Pos)(expr(i, depth - 1, False))
        inc = [n for n in names[i + 1:]]
        if inc and rnd.random() < 0.7:
            return Inc(rnd.choice(inc)) if allow_field else expr(i, depth - 1, False)
        return expr(i, depth - 1, allow_field)

    depth = 3 if tier != "quick" else rnd.choice([2, 3])
    rules = []
    user_rs = []
    always = {"o": "always", "path": P + "chk_always", "name": P + "chk_always"}

    def span_check(rule, n):
        fn = "chk_span_%s" % rule
        user_rs.append("pub fn %s(v: &%s) -> bool { logged(\"%s\", v, v.position.end - v.position.start <= %d) }" % (fn, rule, fn, n))
        pth = "crate::cases::g_%s::user::%s" % (gid, fn)
        return {"o": "span_le", "n": n, "path": pth, "name": pth}

    for i, n in enumerate(names):
        body = expr(i, depth, True)
        pos = rnd.random() < 0.5
        chk = []
        k = rnd.random()
        if i > 0 and k < 0.12:
            chk = [always]
        elif i > 0 and k < 0.3 and pos:
            chk = [span_check(n, rnd.randint(1, 3))]
        rules.append(Rule(n, body, export=(i == 0), position=pos, no_skip_ws=rnd.random() < 0.5,
                          memoize=(i > 0 and rnd.random() < 0.4), checks=chk))
    even = {"o": "str_even", "path": P + "chk_str_even", "name": P + "chk_str_even"}
    # a left-recursive helper of a random shape: plain / nullable tail / two operators / indirect through an
    # enum override; sometimes with a check that ends the growth early
    lk = rnd.random()
    l_pos = rnd.random() < 0.4
    l_ws = rnd.random() < 0.5
    extra_l = []
    if lk < 0.35:
        l_body = Choice(Seq(Call("L", "l", boxed=True), Lit("c"), Call("A", "r")), Call("A", "r"))
    elif lk < 0.5:
        l_body = Choice(Seq(Call("L", "l", boxed=True), Opt(Seq(Lit("c"), Call("A", "r")))), Call("A", "q"))
    elif lk < 0.65:
        l_body = Choice(Seq(Call("L", "l", boxed=True), Clo(Call("B", "bs"))), Call("A", "q"))
    elif lk < 0.8:
        l_body = Choice(Seq(Call("L", "l", boxed=True), Lit("c"), Call("A", "r")), Seq(Call("L", "l", boxed=True), Lit("b"), Call("A", "r")),
                        Call("A", "r"))
    else:
        l_body = Choice(Call("LP", "@"), Call("A", "@"))
        extra_l = [Rule("LP", Seq(Call("L", "l", boxed=True), Lit("c"), Call("A", "r")), no_skip_ws=l_ws, position=rnd.random() < 0.3)]
        l_pos = False
    l_chk = []
    if rnd.random() < 0.3:
        l_chk = [span_check("L", rnd.randint(2, 4))] if l_pos else [always]
    # a @string rule with a random field-less body that starts by consuming (optional tails, lookaheads, choices inside)
    ts_body = Seq(consuming_atom(len(names), False), expr(len(names), 2, False))
    ts_checked = rnd.random() < 0.25          # (the library check takes a plain String: not with @position)
    c_chk = []
    if rnd.random() < 0.25:
        user_rs.append("pub fn cchk_c(c: char) -> bool { logged(\"cchk_c\", &c, c != 'b') }")
        pth = "crate::cases::g_%s::user::cchk_c" % gid
        c_chk = [{"o": "char_not", "c": "b", "path": pth, "name": pth}]
    rules += [
        Rule("TS", ts_body, string=True, no_skip_ws=rnd.random() < 0.5, position=(not ts_checked and rnd.random() < 0.3),
             memoize=rnd.random() < 0.3, checks=([even] if ts_checked else [])),
        Rule("L", l_body, leftrec=True, no_skip_ws=l_ws, position=l_pos, checks=l_chk),
        Rule("T", Clo(Choice(Lit("a"), Lit("b")), plus=True), string=True, no_skip_ws=rnd.random() < 0.7, position=rnd.random() < 0.3),
        CharRule("C", [("lit", "c"), ("range", "a", "b")], checks=c_chk),
        ExternRule("D", {"o": "digits", "path": P + "ext_digits", "nullable": False}),
        ExternRule("X", {"o": "two", "path": P + "ext_two", "nullable": False}),
        Rule("O", Choice(Call("A", "@"), Call("B", "@", boxed=rnd.random() < 0.3)), no_skip_ws=rnd.random() < 0.5),
        Rule("A", Lit("a"), position=rnd.random() < 0.3), Rule("B", Seq(Lit("b"), Opt(Lit("b"))), no_skip_ws=True),
    ]
    rules += extra_l
    if rnd.random() < 0.15:
        # a grammar-defined Whitespace rule replaces the built-in skipper (digits are skipped too)
        rules.append(Rule("Whitespace", Clo(Choice(Lit(" "), Lit("1"))), no_skip_ws=True))
    g = Grammar(gid, rules, root="S", maxlen=2 if tier == "quick" else 3, meta={"shape": "random", "user_rs": "\n".join(user_rs)})
    g.alpha = ["a", "b", "c", " ", "1"] if any(r.kind == "rule" and not r.no_skip_ws for r in rules) else ["a", "b", "c", "1"]
    return g


def substitute(g, m):
    """the same grammar over other characters: every occurrence of the keys of m in case-sensitive literals,
    ranges, @char classes, the alphabet and the extra inputs is replaced (case-insensitive literals stay ASCII)"""
    import peg
    tr = lambda x: "".join(m.get(c, c) for c in x) if isinstance(x, str) else x  # noqa: E731
    for e in peg.all_exprs(g):
        if isinstance(e, Lit) and not e.ci and e.s is not None:
            e.s = tr(e.s)
        elif isinstance(e, Range):
            e.lo, e.hi = tr(e.lo), tr(e.hi)
            if isinstance(e.lo, str) and isinstance(e.hi, str) and e.lo > e.hi:
                e.lo, e.hi = e.hi, e.lo
    for r in g.rules:
        if r.kind == "char":
            parts = []
            for pt in r.parts:
                if pt[0] == "lit":
                    parts.append(("lit", tr(pt[1])))
                elif pt[0] == "range":
                    lo, hi = tr(pt[1]), tr(pt[2])
                    parts.append(("range", min(lo, hi), max(lo, hi)))
                else:
                    parts.append(pt)
            r.parts = parts
    g.alpha = list(dict.fromkeys(tr(c) for c in g.alpha))
    g.extra = [[tr(c) for c in x] for x in g.extra]
    g.real_extra = [[tr(c) for c in x] for x in g.real_extra]
    return g


UNI_MAPS = [{"c": "\u00e9"}, {"b": "\u9053", "c": "\U0001F600"}, {"a": "\u00e9", " ": " "}, {"c": "\u00a0"}, {"b": "\u0130"}]


def rename(g, rmap, fmap):
    """the same grammar under other rule and field names (only for grammars without per-grammar user code)"""
    import peg
    rn = lambda n: rmap.get(n, n)  # noqa: E731
    for e in peg.all_exprs(g):
        if isinstance(e, Call):
            e.rule = rn(e.rule)
            if e.field and e.field != "@":
                e.field = fmap.get(e.field, e.field)
        elif isinstance(e, Inc):
            e.rule = rn(e.rule)
    for r in g.rules:
        r.name = rn(r.name)
        if r.kind == "char":
            r.parts = [(pt[0], rn(pt[1])) if pt[0] == "ref" else pt for pt in r.parts]
    g.root = rn(g.root)
    return g


def fam_names(tier, seed):
    """grammars of the other families under unusual names and orders: long names, names that differ only in case,
    digits and underscores, lower-case rule names, a field named like its rule, reversed rule order, a second
    exported rule.  Nothing but the labels in the tree may change."""
    import copy
    import peg
    rnd = random.Random(seed * 7919 + 97)
    out = []
    n = 3 if tier == "quick" else 12
    schemes = ["long", "long_snake", "case_twins", "digits_underscores", "lower_case", "field_like_rule", "reversed", "two_exports",
               "fields_reverse_alphabetical"]
    for fam in ("fields", "lr", "inc", "ws", "pos", "ops"):
        src = [g for g in FAMILIES[fam](tier, seed) if not g.meta.get("user_rs")
               and not any(getattr(r, "checks", None) and any(c["path"].startswith("crate::") for c in r.checks) for r in g.rules)]
        for sch in schemes:
            for g in sample(rnd, src, n):
                h = copy.deepcopy(g)
                names = [r.name for r in h.rules if r.name not in ("Whitespace",)]
                fields = sorted({e.field for e in peg.all_exprs(h) if isinstance(e, Call) and e.field and e.field != "@"})
                rmap, fmap = {}, {}
                if sch == "long":
                    rmap = {x: x + "_" + "Xy" * 30 for x in names}
                    fmap = {f: f + "_" + "y" * 40 for f in fields}
                elif sch == "long_snake":
                    rmap = {x: "r%s_long_snake_case_name_without_any_capital_letter" % x.lower() for x in names}
                    if len(set(rmap.values())) != len(rmap):
                        continue
                elif sch == "fields_reverse_alphabetical":
                    # the order of appearance of the fields is the reverse of their alphabetical order
                    order = []
                    for e in peg.all_exprs(h):
                        if isinstance(e, Call) and e.field and e.field != "@" and e.field not in order:
                            order.append(e.field)
                    if len(order) < 2:
                        continue
                    fmap = {f: "%s_%s" % ("zyxwvutsrq"[i] if i < 10 else "a" * i, f) for i, f in enumerate(order)}
                elif sch == "case_twins":
                    if len(names) < 2:
                        continue
                    a, b = names[0], names[1]
                    rmap = {a: "Twin", b: "TWIN"}
                    if len(names) > 2:
                        rmap[names[2]] = "TwIn"
                    if len(fields) >= 2:
                        fmap = {fields[0]: "val", fields[1]: "VAL"}
                elif sch == "digits_underscores":
                    rmap = {x: "R2_%s__9" % x for x in names}
                    fmap = {f: "_%s_1" % f for f in fields}
                elif sch == "lower_case":
                    rmap = {x: "r" + x.lower() for x in names}
                elif sch == "field_like_rule":
                    if not fields:
                        continue
                    tgt = next((e.rule for e in peg.all_exprs(h) if isinstance(e, Call) and e.field == fields[0] and e.rule in names), None)
                    if tgt is None:
                        continue
                    tr_ = h.rule(tgt)
                    if tr_.kind == "rule" and not tr_.string and not any(isinstance(e, Call) and e.field for e in peg.sub_exprs(tr_.body)):
                        continue    # a field named like a unit-struct rule does not compile: known finding of C03 (types family)
                    fmap = {fields[0]: tgt}
                elif sch == "reversed":
                    h.rules = list(reversed(h.rules))
                elif sch == "two_exports":
                    cands = [r for r in h.rules if r.kind == "rule" and not r.export and not r.string
                             and fields_of_rule_are_named(r)]
                    if not cands:
                        continue
                    cands[0].export = True
                    h.rules = [cands[0]] + [r for r in h.rules if r is not cands[0]]
                if len(set(rmap.values())) != len(rmap) or (set(rmap.values()) & (set(names) - set(rmap))):
                    continue
                rename(h, rmap, fmap)
                h.id = "nm_%04d" % len(out)
                h.meta = dict(g.meta, shape="%s:%s/%s" % (fam, g.meta.get("shape"), sch))
                h.meta.pop("twin_of", None)
                h.meta.pop("twin", None)
                h.real_extra = []
                if tier == "quick":
                    h.maxlen = min(h.maxlen, 3)
                    h.extra = h.extra[:8]
                if well_formed(h):
                    out.append(h)
    return out


def fields_of_rule_are_named(r):
    import peg
    fs = [e.field for e in peg.sub_exprs(r.body) if isinstance(e, Call) and e.field]
    return "@" not in fs and not any(isinstance(e, Inc) for e in peg.sub_exprs(r.body))


def fam_big(tier, seed):
    """counts: many rules, fields, alternatives, sequence parts, enum variants, memoized rules, checks"""
    rnd = random.Random(seed * 7919 + 111)
    out = []

    def mk(name, rules, alpha, extra, maxlen=2):
        g = Grammar("big_%04d" % len(out), rules, root="S", maxlen=maxlen, meta={"shape": name})
        g.alpha = alpha
        g.extra = [list(x) for x in extra]
        if well_formed(g):
            out.append(g)

    letters = "abcdefghijklmnopqrstuvwxyz"
    for n in (17, 33, 70):
        # a chain of n rules, each adding one letter; the last ones are reached only by long inputs
        rules = [Rule("S", Seq(Call("R0", "r"), Eoi()), export=True, no_skip_ws=True)]
        for i in range(n):
            nxt = [Opt(Call("R%d" % (i + 1), "next"))] if i + 1 < n else []
            rules.append(Rule("R%d" % i, Seq(Lit(letters[i % 3]), *nxt), no_skip_ws=True, position=(i % 5 == 0), memoize=(i % 7 == 3)))
        word = "".join(letters[i % 3] for i in range(n))
        mk("chain_of_%d_rules" % n, rules, ["a", "b", "c"], [word, word[:-1], word + "a", word[:n // 2], word[:n // 2] + "x"])
        # n alternatives, told apart by their last character
        alts = [Seq(Lit("k" * (i // 26) + letters[i % 26]), Call("A", "f%d" % (i % 4))) for i in range(n)]
        mk("choice_of_%d_alternatives" % n, [Rule("S", Choice(*alts), export=True, no_skip_ws=True), Rule("A", Lit("!"), no_skip_ws=True, position=True)],
           ["a", "k", "!", "z"], ["kk" + letters[(n - 1) % 26] + "!", letters[(n - 1) % 26] + "!", "k" * ((n - 1) // 26) + letters[(n - 1) % 26] + "!",
                                  "q!", "kq!", "kkr!", "kkz"], maxlen=2)
        # a sequence of n parts and n fields
        parts = [Call("A" if i % 2 == 0 else "B", "f%d" % i) for i in range(n)]
        w = "".join("a" if i % 2 == 0 else "b" for i in range(n))
        mk("sequence_of_%d_fields" % n, [Rule("S", Seq(*parts), export=True, no_skip_ws=True), Rule("A", Lit("a"), no_skip_ws=True, position=True),
                                         Rule("B", Lit("b"), no_skip_ws=True, string=True)], ["a", "b"], [w, w[:-1], w + "a", w[:-2] + "aa"])
        # an enum override / a multi-type field with n variants
        vs = [Rule("V%d" % i, Lit("k" * (i // 26) + letters[i % 26]), no_skip_ws=True, string=(i % 3 == 0), position=(i % 4 == 1)) for i in range(n)]
        mk("enum_of_%d_variants" % n, [Rule("S", Seq(Call("E", "e"), Clo(Call("E", "rest"))), export=True, no_skip_ws=True),
                                       Rule("E", Choice(*[Call("V%d" % i, "@", boxed=(i % 6 == 5)) for i in range(n)]), no_skip_ws=True)] + vs,
           ["a", "k", "z"], ["k" * ((n - 1) // 26) + letters[(n - 1) % 26], "abz", "kakb", "zka", "kkq"], maxlen=2)
        mk("field_of_%d_types" % n, [Rule("S", Clo(Choice(*[Call("V%d" % i, "f") for i in range(n)])), export=True, no_skip_ws=True)] + vs,
           ["a", "k", "z"], ["k" * ((n - 1) // 26) + letters[(n - 1) % 26], "abz", "kakb", "zka"], maxlen=2)
        # n memoized rules tried at one offset
        ms = [Rule("M%d" % i, Seq(Lit("a"), Lit(letters[i % 26])), no_skip_ws=True, memoize=True, position=(i % 2 == 0)) for i in range(n)]
        mk("%d_memoized_rules" % n, [Rule("S", Choice(*([Seq(Call("M%d" % i, "m"), Lit("!")) for i in range(n)] + [Seq(Call("M%d" % (n - 1), "m"), Lit("?"))])),
                                          export=True, no_skip_ws=True)] + ms,
           ["a", "!", "?", "z"], ["a" + letters[(n - 1) % 26] + "?", "a" + letters[(n - 1) % 26] + "!", "ab!", "aa?", "az?"], maxlen=2)
    # one field bound in 13 parts of one sequence (plain, optional, closure, choice occurrences): input order
    num = lambda: Call("N", "items")  # noqa: E731
    mk("same_field_in_13_parts", [Rule("S", Seq(num(), Lit(","), num(), Lit(","), Opt(Seq(num(), Lit(","))), num(), Lit(","), Clo(Seq(num(), Lit(";"))),
                                            num(), Lit(","), Choice(Seq(num(), Lit("!")), Seq(num(), Lit("?"))), num(), Opt(num()), num()),
                                       export=True, no_skip_ws=True),
                                  Rule("N", Choice(*[Lit(str(i)) for i in range(10)]), string=True, no_skip_ws=True)],
       [str(i) for i in range(10)] + [",", ";", "!", "?"],
       ["0,1,2,3,4;5;6,7!890", "0,1,2,3,4,5?67", "0,1,3,4;5;6;7,8!9012"[:20], "0,1,2,3,4!56", "1,2,3,4;5,6?789"], maxlen=1)
    # rule graphs: one rule called from many places, long recursion cycles, diamonds, a rule both included and called
    mk("graph_rule_called_12_times", [Rule("S", Seq(*[Call("A", "f%d" % (i % 5)) if i % 3 else Call("A") for i in range(12)]), export=True, no_skip_ws=True),
                                      Rule("A", Seq(Lit("a"), Opt(Lit("b"))), no_skip_ws=True, position=True, memoize=True)],
       ["a", "b"], ["a" * 12, "ab" * 12, "a" * 11, "a" * 13, "ab" * 6 + "a" * 6, "ab" * 11 + "b"])
    mk("graph_cycle_of_4_rules", [Rule("S", Seq(Call("P", "p"), Eoi()), export=True, no_skip_ws=True),
                                  Rule("P", Seq(Lit("a"), Opt(Call("Q", "q"))), no_skip_ws=True),
                                  Rule("Q", Seq(Lit("b"), Opt(Call("R", "r", boxed=True))), no_skip_ws=True),
                                  Rule("R", Choice(Seq(Lit("c"), Call("T", "t")), Lit("!")), no_skip_ws=True),
                                  Rule("T", Seq(Neg(Lit("c")), Call("P", "p", boxed=True)), no_skip_ws=True, memoize=True)],
       ["a", "b", "c", "!"], ["abcabcab!", "abcab", "abcabc", "abab", "abcabcabcabcab", "abcc"])
    mk("graph_diamond", [Rule("S", Choice(Seq(Call("X", "x"), Lit("!")), Call("Y", "y")), export=True),
                         Rule("X", Seq(Lit("<"), Call("Z", "z")), position=True), Rule("Y", Seq(Lit("<"), Call("Z", "z"), Opt(Call("Z", "w")))),
                         Rule("Z", Seq(Lit("a"), Clo(Lit("a"))), string=True, memoize=True, no_skip_ws=True)],
       ["<", "a", "!", " "], ["<aa!", "<aa", "< aa a", "<a a!", "<aa a !"])
    mk("graph_included_and_called", [Rule("S", Seq(Inc("I"), Lit(","), Call("I", "i"), Opt(Seq(Lit(","), Inc("I")))), export=True),
                                     Rule("I", Seq(Call("A", "x"), Opt(Call("B", "y"))), position=True, memoize=True),
                                     Rule("A", Lit("a")), Rule("B", Lit("b"), position=True)],
       ["a", "b", ",", " "], ["a,a", "ab,ab,ab", "a b , a", "ab,a,b", "a,ab,"])
    mk("graph_lookahead_closure_field", [Rule("S", Seq(Pos(Seq(Call("W"), Lit("!"))), Clo(Seq(Call("W", "ws"), Opt(Lit(",")))), Lit("!"), Neg(Call("W"))),
                                              export=True, no_skip_ws=True),
                                         Rule("W", Seq(Lit("a"), Clo(Lit("a"))), string=True, no_skip_ws=True, memoize=True)],
       ["a", ",", "!"], ["a!", "aa,a!", "a,a,a!", "a!a", "aa", "a,!"])
    # many checks on one rule
    P = "verif_common::oracles::"
    always = {"o": "always", "path": P + "chk_always", "name": P + "chk_always"}
    never = {"o": "never", "path": P + "chk_never", "name": P + "chk_never"}
    for k in (9, 17):
        mk("%d_checks_last_fails" % k, [Rule("S", Choice(Call("N", "n"), Call("Y", "y")), export=True, no_skip_ws=True),
                                        Rule("N", Lit("a"), no_skip_ws=True, checks=[always] * (k - 1) + [never]),
                                        Rule("Y", Lit("a"), no_skip_ws=True, checks=[always] * k)], ["a", "b"], ["a", "aa"])
    return out


FAMILIES_BIG = fam_big


def fam_rand(tier, seed):
    rnd = random.Random(seed * 7919 + 77)
    n = 80 if tier == "quick" else 500
    out = []
    tries = 0
    while len(out) < n and tries < n * 20:
        tries += 1
        g = rand_grammar(rnd, "rnd_%04d" % len(out), tier)
        if not well_formed(g):
            continue
        # a field under a lookahead through an include would be rejected: lookahead bodies are generated field-less,
        # but an include inside them could bring fields in - expr() never puts an include under a lookahead
        g.meta["shape"] = "random#%d/%d" % (seed, len(out))
        add_extras(g, rnd, 25 if tier == "quick" else 60, 3, 9)
        if len(out) % 3 == 0:
            add_long(g, rnd)
        out.append(g)
    return out


def fam_randuni(tier, seed):
    """the random grammars over multi-byte characters (C04, C09: byte offsets against character boundaries)"""
    import copy
    rnd = random.Random(seed * 7919 + 78)
    out = []
    for g in fam_rand(tier, seed + 1000)[: (40 if tier == "quick" else 250)]:
        h = copy.deepcopy(g)
        h.id = "ru_%04d" % len(out)
        m = rnd.choice(UNI_MAPS)
        substitute(h, m)
        for r in h.rules:
            for c in getattr(r, "checks", []):
                c["path"] = c["path"].replace("g_" + g.id, "g_" + h.id)
                c["name"] = c["name"].replace("g_" + g.id, "g_" + h.id)
        h.meta = dict(g.meta, shape=g.meta["shape"] + "/uni")
        if well_formed(h):
            out.append(h)
    return out


def fam_randmemo(tier, seed):
    """the random grammars again with every @memoize mark flipped: variant vs variant (C05)"""
    import copy
    out = []
    for g in fam_rand(tier, seed)[: (20 if tier == "quick" else 200)]:
        for flip in (False, True):
            h = copy.deepcopy(g)
            h.id = "rm_%04d" % len(out)
            for r in h.rules:
                # (LP lies on a left-recursive cycle: memoizing it is outside C05 / C07 - its failure during the
                # seed evaluation would be cached and the growth would never see it succeed)
                if r.kind == "rule" and not r.export and r.name not in ("T", "O", "A", "B", "LP"):
                    r.memoize = (not r.memoize) if flip else r.memoize
            h.meta = dict(g.meta, base=g.id, memo=[r.name for r in h.rules if r.kind == "rule" and r.memoize],
                          probes={}, nrules=0, all_memo=False)
            for r in h.rules:
                for c in getattr(r, "checks", []):     # per-grammar check functions live in the grammar's own module
                    c["path"] = c["path"].replace("g_" + g.id, "g_" + h.id)
                    c["name"] = c["name"].replace("g_" + g.id, "g_" + h.id)
            out.append(h)
    return out


FAMILIES["rand"] = fam_rand
FAMILIES["names"] = fam_names
FAMILIES["big"] = fam_big
FAMILIES["randuni"] = fam_randuni
FAMILIES["randmemo"] = fam_randmemo
