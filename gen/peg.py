"""Grammar ASTs: one source of truth.

From one AST this module prints (a) the .ebnf text handed to the real compiler and
(b) the JSON data the TLA+ specification loads (spec/PegGrammar.tla describes the format).
It also mirrors the static well-formedness predicates of PegGrammar.tla (TLC checks that the
two agree on every corpus grammar: invariant StaticOK).
"""
import json

# ----------------------------------------------------------------------------- expressions


class E:
    pass


class Seq(E):
    def __init__(self, *parts):
        self.parts = list(parts)


class Choice(E):
    def __init__(self, *alts):
        self.alts = list(alts)


class Opt(E):
    def __init__(self, b):
        self.b = b


class Clo(E):
    def __init__(self, b, plus=False):
        self.b = b
        self.plus = plus


class Neg(E):
    def __init__(self, b):
        self.b = b


class Pos(E):
    def __init__(self, b):
        self.b = b


class Lit(E):
    def __init__(self, s, ci=False, cps=None):
        self.s = s
        self.ci = ci
        self.cps = cps   # explicit code points (may be invalid ones: surrogates, > 10FFFF)

    def codepoints(self):
        return list(self.cps) if self.cps is not None else [ord(c) for c in self.s]


class Range(E):
    def __init__(self, lo, hi):
        self.lo = lo   # a character, or an int code point (possibly invalid)
        self.hi = hi


class Eoi(E):
    pass


class Call(E):
    """rule reference; field None (discard), a name, or '@' (override)"""

    def __init__(self, rule, field=None, boxed=False):
        self.rule = rule
        self.field = field
        self.boxed = boxed


class Inc(E):
    def __init__(self, rule):
        self.rule = rule


# ----------------------------------------------------------------------------- rules


class Rule:
    kind = "rule"

    def __init__(self, name, body, export=False, no_skip_ws=False, string=False, position=False,
                 memoize=False, leftrec=False, checks=()):
        self.name = name
        self.body = body
        self.export = export
        self.no_skip_ws = no_skip_ws
        self.string = string
        self.position = position
        self.memoize = memoize
        self.leftrec = leftrec
        self.checks = list(checks)  # oracle descriptors (dicts with 'o', 'name', ...)


class CharRule:
    kind = "char"

    def __init__(self, name, parts, checks=()):
        self.name = name
        self.parts = list(parts)  # ('lit', c) | ('range', lo, hi) | ('ref', rulename)
        self.checks = list(checks)


class ExternRule:
    kind = "extern"

    def __init__(self, name, fn):
        self.name = name
        self.fn = fn  # oracle descriptor: {'o': 'digits', 'path': 'crate::...', 'ret': None|'char', 'nullable': bool}


class Grammar:
    def __init__(self, gid, rules, root=None, alpha=None, maxlen=3, extra=(), meta=None):
        self.id = gid
        self.rules = list(rules)
        self.root = root or next(r.name for r in self.rules if r.kind == "rule" and r.export)
        self.alpha = list(alpha) if alpha is not None else None
        self.maxlen = maxlen
        self.extra = [list(x) for x in extra]
        self.real_extra = []      # inputs beyond the exhaustive bound: real parsers + lean model run
        self.huge_extra = []      # tens of kilobytes: real parsers only, judged by the predicates that need no model
        self.meta = meta or {}

    def rule(self, name):
        for r in self.rules:
            if r.name == name:
                return r
        return None

    def index(self, name):
        if name == "char" and self.rule("char") is None:
            return 0
        if name == "Whitespace" and self.rule("Whitespace") is None:
            return -1
        for i, r in enumerate(self.rules):
            if r.name == name:
                return i + 1
        raise KeyError(name)


# ----------------------------------------------------------------------------- printing .ebnf


def esc_char(c, quote):
    o = ord(c)
    if c == "\\":
        return "\\\\"
    if c == quote:
        return "\\" + c
    if c == "\n":
        return "\\n"
    if c == "\r":
        return "\\r"
    if c == "\t":
        return "\\t"
    if 32 <= o < 127:
        return c
    return "\\u{%X}" % o


def esc_cp(c, quote):
    if isinstance(c, str):
        return esc_char(c, quote)
    if 32 <= c < 127 and chr(c) not in ("\\", quote):
        return chr(c)
    return "\\u{%X}" % c


def lit_text(s, ci=False):
    q = "'"
    return ("i" if ci else "") + q + "".join(esc_cp(c, q) for c in s) + q


def cp_of(c):
    return c if isinstance(c, int) else ord(c)


def expr_text(e, ctx="choice"):
    """ctx: 'choice' (top / bracket body), 'seq' (a sequence part), 'unary' (lookahead operand)"""
    if isinstance(e, Choice):
        t = " | ".join(expr_text(a, "alt") for a in e.alts)
        return t if ctx == "choice" else "(" + t + ")"
    if isinstance(e, Seq):
        if not e.parts:
            return "" if ctx in ("choice", "alt") else "()"
        t = " ".join(expr_text(p, "seq") for p in e.parts)
        return t if ctx in ("choice", "alt") else "(" + t + ")"
    if isinstance(e, Opt):
        return "[" + expr_text(e.b, "choice") + "]"
    if isinstance(e, Clo):
        return "{" + expr_text(e.b, "choice") + "}" + ("+" if e.plus else "")
    if isinstance(e, Neg):
        return "!" + expr_text(e.b, "unary")
    if isinstance(e, Pos):
        return "&" + expr_text(e.b, "unary")
    if isinstance(e, Lit):
        return lit_text(e.cps if e.cps is not None else e.s, e.ci)
    if isinstance(e, Range):
        return lit_text([e.lo]) + ".." + lit_text([e.hi])
    if isinstance(e, Eoi):
        return "$"
    if isinstance(e, Call):
        if e.field is None:
            return e.rule
        return e.field + ":" + ("*" if e.boxed else "") + e.rule
    if isinstance(e, Inc):
        return ">" + e.rule
    raise TypeError(e)


def rule_text(r):
    out = []
    if r.kind == "rule":
        if r.export:
            out.append("@export")
        if r.no_skip_ws:
            out.append("@no_skip_ws")
        if r.string:
            out.append("@string")
        if r.position:
            out.append("@position")
        if r.memoize:
            out.append("@memoize")
        if r.leftrec:
            out.append("@leftrec")
        for c in r.checks:
            out.append("@check(%s)" % c["path"])
        out.append("%s = %s;" % (r.name, expr_text(r.body, "choice")))
    elif r.kind == "char":
        for c in r.checks:
            out.append("@check(%s)" % c["path"])
        out.append("@char")
        parts = []
        for p in r.parts:
            if p[0] == "lit":
                parts.append(lit_text([p[1]]))
            elif p[0] == "range":
                parts.append(lit_text([p[1]]) + ".." + lit_text([p[2]]))
            else:
                parts.append(p[1])
        out.append("%s = %s;" % (r.name, " | ".join(parts)))
    else:
        ret = (" -> " + r.fn["ret"]) if r.fn.get("ret") else ""
        out.append("@extern(%s%s)" % (r.fn["path"], ret))
        out.append("%s;" % r.name)
    return "\n".join(out)


def grammar_text(g):
    if g.meta.get("text"):
        return g.meta["text"]
    return "\n\n".join(rule_text(r) for r in g.rules) + "\n"


# ----------------------------------------------------------------------------- JSON for TLA+


def oracle_json(d):
    o = {k: v for k, v in d.items() if k not in ("path", "rust")}
    if "nullable" in o:                       # an extern function: its result type (String by default)
        o["ret"] = o.get("ret") or "String"
    for k in ("c", "lo", "hi"):
        if k in o and isinstance(o[k], str):
            o[k] = ord(o[k])
    return o


def grammar_json(g):
    nodes = []

    def add(n):
        nodes.append(n)
        return len(nodes)

    def walk(e):
        if isinstance(e, Seq):
            return add({"k": "seq", "ps": [walk(p) for p in e.parts]})
        if isinstance(e, Choice):
            return add({"k": "choice", "as": [walk(a) for a in e.alts]})
        if isinstance(e, Opt):
            return add({"k": "opt", "b": walk(e.b)})
        if isinstance(e, Clo):
            return add({"k": "clo", "b": walk(e.b), "plus": bool(e.plus)})
        if isinstance(e, Neg):
            return add({"k": "neg", "b": walk(e.b)})
        if isinstance(e, Pos):
            return add({"k": "pos", "b": walk(e.b)})
        if isinstance(e, Lit):
            return add({"k": "lit", "s": e.codepoints(), "ci": bool(e.ci)})
        if isinstance(e, Range):
            return add({"k": "range", "lo": cp_of(e.lo), "hi": cp_of(e.hi)})
        if isinstance(e, Eoi):
            return add({"k": "eoi"})
        if isinstance(e, Call):
            f = "" if e.field is None else e.field
            return add({"k": "call", "ri": g.index(e.rule), "f": f, "boxed": bool(e.boxed)})
        if isinstance(e, Inc):
            try:
                return add({"k": "inc", "ri": g.index(e.rule)})
            except KeyError:
                return add({"k": "inc", "ri": -2})
        raise TypeError(e)

    rules = []
    for r in g.rules:
        if r.kind == "rule":
            n0 = len(nodes)
            body = walk(r.body)
            rules.append({"kind": "rule", "name": r.name, "body": body, "nodes": list(range(n0 + 1, len(nodes) + 1)),
                          "skip": not r.no_skip_ws,
                          "string": bool(r.string), "position": bool(r.position), "memoize": bool(r.memoize),
                          "leftrec": bool(r.leftrec), "export": bool(r.export),
                          "checks": [oracle_json(c) for c in r.checks]})
        elif r.kind == "char":
            parts = []
            for p in r.parts:
                if p[0] == "lit":
                    parts.append({"k": "lit", "c": cp_of(p[1])})
                elif p[0] == "range":
                    parts.append({"k": "range", "lo": cp_of(p[1]), "hi": cp_of(p[2])})
                else:
                    parts.append({"k": "ref", "ri": g.index(p[1])})
            rules.append({"kind": "char", "name": r.name, "parts": parts,
                          "checks": [oracle_json(c) for c in r.checks]})
        else:
            rules.append({"kind": "extern", "name": r.name, "fn": oracle_json(r.fn)})
    ws = g.index("Whitespace") if g.rule("Whitespace") is not None else 0
    return {"id": g.id, "rules": rules, "nodes": nodes, "root": g.index(g.root), "ws": ws, "lrfirst": bool(g.meta.get("lrfirst", True)),
            "derives": g.meta.get("derives_list", ["Debug", "Clone"]), "badident": bool(g.meta.get("badident")), "badderive": bool(g.meta.get("badderive")),
            "expect": g.meta.get("expect", "code"), "lean": bool(g.meta.get("lean", False)),
            "alpha": [ord(c) for c in (g.alpha or [])], "maxlen": g.maxlen,
            "extra": [[ord(c) for c in x] for x in g.extra]}


# ----------------------------------------------------------------------------- static predicates


def sub_exprs(e):
    yield e
    if isinstance(e, Seq):
        for p in e.parts:
            yield from sub_exprs(p)
    elif isinstance(e, Choice):
        for a in e.alts:
            yield from sub_exprs(a)
    elif isinstance(e, (Opt, Clo, Neg, Pos)):
        yield from sub_exprs(e.b)


def all_exprs(g):
    for r in g.rules:
        if r.kind == "rule":
            yield from sub_exprs(r.body)


def nullable_fix(g):
    nul = {r.name: False for r in g.rules}

    def ne(e):
        if isinstance(e, Call):
            if e.rule in nul:
                return nul[e.rule]
            return e.rule == "Whitespace"
        if isinstance(e, Seq):
            return all(ne(p) for p in e.parts)
        if isinstance(e, Choice):
            return any(ne(a) for a in e.alts)
        if isinstance(e, (Opt, Neg, Pos, Eoi)):
            return True
        if isinstance(e, Clo):
            return (not e.plus) or ne(e.b)
        if isinstance(e, Inc):
            return ne(g.rule(e.rule).body)
        if isinstance(e, Lit):
            return e.s == ""
        return False

    changed = True
    while changed:
        changed = False
        for r in g.rules:
            if nul[r.name]:
                continue
            if r.kind == "rule":
                v = ne(r.body)
            elif r.kind == "extern":
                v = bool(r.fn.get("nullable"))
            else:
                v = False
            if v:
                nul[r.name] = True
                changed = True
    return nul, ne


def left_calls(g, nul, ne):
    def lc(e):
        if isinstance(e, Call):
            return {e.rule} if g.rule(e.rule) is not None else set()
        if isinstance(e, Seq):
            out = set()
            for p in e.parts:
                out |= lc(p)
                if not ne(p):
                    break
            return out
        if isinstance(e, Choice):
            out = set()
            for a in e.alts:
                out |= lc(a)
            return out
        if isinstance(e, (Opt, Clo, Neg, Pos)):
            return lc(e.b)
        if isinstance(e, Inc):
            return lc(g.rule(e.rule).body)
        return set()

    res = {}
    for r in g.rules:
        if r.kind == "rule":
            s = lc(r.body)
            if (not r.no_skip_ws) and g.rule("Whitespace") is not None:
                s = s | {"Whitespace"}
            res[r.name] = s
        elif r.kind == "char":
            res[r.name] = {p[1] for p in r.parts if p[0] == "ref"}
        else:
            res[r.name] = set()
    return res


def well_formed(g):
    """mirror of PegGrammar!WellFormed"""
    try:
        nul, ne = nullable_fix(g)
    except (AttributeError, RecursionError):
        return False
    for e in all_exprs(g):
        if isinstance(e, Clo) and ne(e.b):
            return False
    lc = left_calls(g, nul, ne)

    def is_lr(n):
        r = g.rule(n)
        return r.kind == "rule" and r.leftrec

    for r in g.rules:
        if is_lr(r.name):
            continue
        reach = set(lc[r.name])
        while True:
            nxt = set(reach)
            for n in reach:
                if not is_lr(n):
                    nxt |= lc[n]
            if nxt == reach:
                break
            reach = nxt
        if r.name in reach:
            return False
    return True


def chars_of(g):
    """characters mentioned by the grammar (for choosing an alphabet)"""
    out = []

    def add(c):
        if c not in out:
            out.append(c)

    for e in all_exprs(g):
        if isinstance(e, Lit):
            for c in (e.s or ""):
                add(c)
                if e.ci and c.swapcase() != c:
                    add(c.swapcase())
        elif isinstance(e, Range):
            if isinstance(e.lo, str) and isinstance(e.hi, str):
                add(e.lo)
                add(e.hi)
    for r in g.rules:
        if r.kind == "char":
            for p in r.parts:
                if p[0] == "lit":
                    add(p[1])
                elif p[0] == "range":
                    add(p[1])
                    add(p[2])
    return out


def corpus_json(grammars):
    """the corpus as the specification loads it: every grammar knows its own index (for cached tables)"""
    js = [grammar_json(g) for g in grammars]
    for i, j in enumerate(js):
        j["idx"] = i + 1
    return js


def write_corpus(grammars, outdir):
    """corpus.json for TLC, one .ebnf per grammar and meta.json for the harness build"""
    import os
    os.makedirs(outdir, exist_ok=True)
    js = corpus_json(grammars)
    with open(os.path.join(outdir, "corpus.json"), "w") as f:
        json.dump(js, f, separators=(",", ":"))
    lines = []
    for g in grammars:
        with open(os.path.join(outdir, g.id + ".ebnf"), "w") as f:
            f.write(g.meta.get("text") or grammar_text(g))      # F-layout: the same AST in another spelling
        if g.meta.get("user_rs"):
            with open(os.path.join(outdir, g.id + ".user.rs"), "w") as f:
                f.write(g.meta["user_rs"])
        lines.append("\t".join([g.id, g.root, g.meta.get("derives", "-"), g.meta.get("ctx", "-"),
                                g.meta.get("flags", "-")]))
    with open(os.path.join(outdir, "meta.tsv"), "w") as f:
        f.write("\n".join(lines) + "\n")
    return js
