"""Reader for Rust `{:?}` output -> the canonical value form of spec/PegValues.tla

  struct        {"$": Name, field: value, ...}
  variant/Some  {"$": Name, "0": value}          None / unit struct  {"$": Name}
  Vec           [..]      String {"$s": [code points]}     char {"$c": cp}
  Range         {"$r": [a, b]}      ()  []
"""


class DbgError(Exception):
    pass


SIMPLE = {"n": "\n", "r": "\r", "t": "\t", "\\": "\\", "'": "'", '"': '"', "0": "\0"}


class P:
    def __init__(self, s):
        self.s = s
        self.i = 0

    def ws(self):
        while self.i < len(self.s) and self.s[self.i] in " \n\t":
            self.i += 1

    def peek(self):
        return self.s[self.i] if self.i < len(self.s) else ""

    def expect(self, c):
        self.ws()
        if not self.s.startswith(c, self.i):
            raise DbgError("expected %r at %d in %r" % (c, self.i, self.s[:200]))
        self.i += len(c)

    def escaped(self):
        # after a backslash
        c = self.s[self.i]
        self.i += 1
        if c in SIMPLE:
            return SIMPLE[c]
        if c == "u":
            self.expect("{")
            j = self.s.index("}", self.i)
            v = int(self.s[self.i:j], 16)
            self.i = j + 1
            return chr(v)
        if c == "x":
            v = int(self.s[self.i:self.i + 2], 16)
            self.i += 2
            return chr(v)
        raise DbgError("bad escape \\%s" % c)

    def string(self):
        self.expect('"')
        out = []
        while True:
            c = self.s[self.i]
            self.i += 1
            if c == '"':
                break
            if c == "\\":
                out.append(self.escaped())
            else:
                out.append(c)
        return {"$s": [ord(c) for c in out]}

    def char(self):
        self.expect("'")
        c = self.s[self.i]
        self.i += 1
        if c == "\\":
            c = self.escaped()
        self.expect("'")
        return {"$c": ord(c)}

    def number(self):
        j = self.i
        while j < len(self.s) and self.s[j].isdigit():
            j += 1
        v = int(self.s[self.i:j])
        self.i = j
        if self.s.startswith("..", self.i):
            self.i += 2
            j = self.i
            while j < len(self.s) and self.s[j].isdigit():
                j += 1
            w = int(self.s[self.i:j])
            self.i = j
            return {"$r": [v, w]}
        return v

    def ident(self):
        j = self.i
        while j < len(self.s) and (self.s[j].isalnum() or self.s[j] in "_#"):
            j += 1
        if j == self.i:
            raise DbgError("identifier expected at %d in %r" % (self.i, self.s[:200]))
        v = self.s[self.i:j]
        self.i = j
        return v[2:] if v.startswith("r#") else v

    def value(self):
        self.ws()
        c = self.peek()
        if c == '"':
            return self.string()
        if c == "'":
            return self.char()
        if c.isdigit():
            return self.number()
        if c == "(":
            self.expect("(")
            self.expect(")")
            return []
        if c == "[":
            self.expect("[")
            out = []
            self.ws()
            if self.peek() == "]":
                self.i += 1
                return out
            while True:
                out.append(self.value())
                self.ws()
                if self.peek() == ",":
                    self.i += 1
                    self.ws()
                    if self.peek() == "]":
                        self.i += 1
                        return out
                    continue
                self.expect("]")
                return out
        name = self.ident()
        if name in ("true", "false"):
            return name == "true"
        self.ws()
        c = self.peek()
        if c == "{":
            self.i += 1
            out = {"$": name}
            self.ws()
            if self.peek() == "}":
                self.i += 1
                return out
            while True:
                self.ws()
                f = self.ident()
                self.expect(":")
                out[f] = self.value()
                self.ws()
                if self.peek() == ",":
                    self.i += 1
                    self.ws()
                    if self.peek() == "}":
                        self.i += 1
                        return out
                    continue
                self.expect("}")
                return out
        if c == "(":
            self.i += 1
            v = self.value()
            self.ws()
            if self.peek() == ",":
                self.i += 1
            self.expect(")")
            return {"$": name, "0": v}
        return {"$": name}


def parse_debug(s):
    p = P(s)
    v = p.value()
    p.ws()
    if p.i != len(s):
        raise DbgError("trailing text at %d in %r" % (p.i, s[:200]))
    return v


def strip_ranges(v):
    """mask `position` ranges (C09 owns them)"""
    if isinstance(v, dict):
        return {k: strip_ranges(x) for k, x in v.items() if not (k == "position" and isinstance(x, dict) and "$r" in x)}
    if isinstance(v, list):
        return [strip_ranges(x) for x in v]
    return v


def ranges_of(v, out=None):
    """all position ranges in document order (pre-order)"""
    if out is None:
        out = []
    if isinstance(v, dict):
        if "position" in v and isinstance(v["position"], dict) and "$r" in v["position"]:
            out.append(tuple(v["position"]["$r"]))
        for k, x in v.items():
            if k != "position":
                ranges_of(x, out)
    elif isinstance(v, list):
        for x in v:
            ranges_of(x, out)
    return out


def strings_of(v, out=None):
    if out is None:
        out = []
    if isinstance(v, dict):
        if "$s" in v:
            out.append("".join(chr(c) for c in v["$s"]))
        for x in v.values():
            strings_of(x, out)
    elif isinstance(v, list):
        for x in v:
            strings_of(x, out)
    return out


if __name__ == "__main__":
    import sys
    tests = [
        ('S { position: 0..1 }', {"$": "S", "position": {"$r": [0, 1]}}),
        ('S { x: Some("a\\"b\\u{7f}"), y: [A(A), B(B { c: \'\\\'\' })] }',
         {"$": "S", "x": {"$": "Some", "0": {"$s": [97, 34, 98, 127]}},
          "y": [{"$": "A", "0": {"$": "A"}}, {"$": "B", "0": {"$": "B", "c": {"$c": 39}}}]}),
        ('"é道"', {"$s": [233, 36947]}),
        ("None", {"$": "None"}),
        ("[]", []),
    ]
    for t, e in tests:
        got = parse_debug(t)
        if got != e:
            print("FAIL", t, got)
            sys.exit(1)
    print("dbgparse ok")
