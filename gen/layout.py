"""F-layout: many textual spellings of one grammar AST (whitespace, comments, quote style, escape form
per character, redundant parentheses, directive order), and the way back: the canonical tree of
`peginator_codegen::Grammar` (as read from derive(Debug), or as computed by the specification running the
Meta grammar) -> peg.py AST, escapes decoded as doc/syntax.md says."""
import peg

SEPS = [" ", " ", "\n", "\t", "  ", " # note\n", "\n# a comment line\n", "\x0c", "\r\n"]


def spell_char(c, quote, rnd, style):
    """one character of a literal in a random valid spelling; style 'plain' avoids needless escapes"""
    o = c if isinstance(c, int) else ord(c)
    simple = {10: "\\n", 13: "\\r", 9: "\\t", 92: "\\\\", 39: "\\'", 34: '\\"'}
    forms = []
    printable = 32 <= o < 127 or (o >= 160 and not (0xD800 <= o <= 0xDFFF) and o <= 0x10FFFF)
    if printable and o != 92 and chr(o) != quote:
        forms.append(chr(o))
    if style == "plain" and forms:
        return forms[0]
    if o in simple:
        forms.append(simple[o])
    if o < 256:
        forms.append("\\x%02x" % o if rnd.random() < 0.5 else "\\x%02X" % o)
    if o < 0x10000:
        forms.append("\\u%04x" % o if rnd.random() < 0.5 else "\\u%04X" % o)
    forms.append("\\U00%06x" % o)
    forms.append("\\u{%x}" % o if rnd.random() < 0.5 else "\\u{%06X}" % o)
    return rnd.choice(forms)


def spell_lit(cps, ci, rnd, style):
    q = rnd.choice("'\"") if style != "plain" else "'"
    return ("i" if ci else "") + q + "".join(spell_char(c, q, rnd, style) for c in cps) + q


class Layout:
    def __init__(self, rnd, style="wild", parens=0.15):
        self.rnd = rnd
        self.style = style
        self.parens = parens if style != "plain" else 0.0
        self.toks = []

    def emit(self, t):
        self.toks.append(t)

    def maybe_group(self, fn):
        if self.rnd.random() < self.parens:
            self.emit("(")
            fn()
            self.emit(")")
        else:
            fn()

    def expr(self, e, ctx):
        """ctx as in peg.expr_text: 'choice' | 'alt' | 'seq' | 'unary'"""
        if isinstance(e, peg.Choice):
            need = ctx != "choice"
            if need:
                self.emit("(")
            for i, a in enumerate(e.alts):
                if i:
                    self.emit("|")
                self.expr(a, "alt")
            if need:
                self.emit(")")
            return
        if isinstance(e, peg.Seq):
            need = ctx not in ("choice", "alt")
            if not e.parts and not need:
                return
            if need:
                self.emit("(")
            for p in e.parts:
                self.expr(p, "seq")
            if need:
                self.emit(")")
            return

        def atom():
            if isinstance(e, peg.Opt):
                self.emit("[")
                self.expr(e.b, "choice")
                self.emit("]")
            elif isinstance(e, peg.Clo):
                self.emit("{")
                self.expr(e.b, "choice")
                self.emit("}")
                if e.plus:
                    self.emit("+")
            elif isinstance(e, peg.Neg):
                self.emit("!")
                self.expr(e.b, "unary")
            elif isinstance(e, peg.Pos):
                self.emit("&")
                self.expr(e.b, "unary")
            elif isinstance(e, peg.Lit):
                self.emit(spell_lit(e.codepoints(), e.ci, self.rnd, self.style))
            elif isinstance(e, peg.Range):
                self.emit(self.char_part(e.lo))      # CharRangePart: single quotes only
                self.emit("..")
                self.emit(self.char_part(e.hi))
            elif isinstance(e, peg.Eoi):
                self.emit("$")
            elif isinstance(e, peg.Inc):
                self.emit(">")
                self.emit(e.rule)
            elif isinstance(e, peg.Call):
                if e.field is not None:
                    self.emit(e.field)
                    self.emit(":")
                    if e.boxed:
                        self.emit("*")
                self.emit(e.rule)
            else:
                raise TypeError(e)

        self.maybe_group(atom)

    def path(self, p):
        parts = p.split("::")
        for i, x in enumerate(parts):
            if i:
                self.emit("::")
            self.emit(x)

    def rule(self, r):
        if r.kind == "rule":
            ds = []
            for flag, txt in (("export", "@export"), ("no_skip_ws", "@no_skip_ws"), ("string", "@string"),
                              ("position", "@position"), ("memoize", "@memoize"), ("leftrec", "@leftrec")):
                if getattr(r, flag):
                    ds.append([txt])
            for c in r.checks:
                ds.append(["@check", "(", ("path", c["path"]), ")"])
            if self.style != "plain":
                # any order of the directives; several @check keep their relative order (it is significant)
                flags = [d for d in ds if d[0] != "@check"]
                chk = [d for d in ds if d[0] == "@check"]
                if flags and self.rnd.random() < 0.15:
                    flags.append(self.rnd.choice(flags))      # a flag directive given twice means what it means once
                self.rnd.shuffle(flags)
                ds = flags
                pos = sorted(self.rnd.randint(0, len(flags)) for _ in chk)
                for k, (p_, d) in enumerate(zip(pos, chk)):
                    ds.insert(p_ + k, d)
            for d in ds:
                for t in d:
                    if isinstance(t, tuple):
                        self.path(t[1])
                    else:
                        self.emit(t)
            self.emit(r.name)
            self.emit("=")
            self.expr(r.body, "choice")
            self.emit(";")
        elif r.kind == "char":
            pre = list(r.checks)
            # @check directives may stand before and after @char: wild layouts always put some after it
            k = len(pre) // 2 if self.style != "plain" else len(pre)
            for c in pre[:k]:
                self.emit("@check")
                self.emit("(")
                self.path(c["path"])
                self.emit(")")
            self.emit("@char")
            for c in pre[k:]:
                self.emit("@check")
                self.emit("(")
                self.path(c["path"])
                self.emit(")")
            self.emit(r.name)
            self.emit("=")
            for i, p in enumerate(r.parts):
                if i:
                    self.emit("|")
                if p[0] == "lit":
                    self.emit(self.char_part(p[1]))
                elif p[0] == "range":
                    self.emit(self.char_part(p[1]))
                    self.emit("..")
                    self.emit(self.char_part(p[2]))
                else:
                    self.emit(p[1])
            self.emit(";")
        else:
            self.emit("@extern")
            self.emit("(")
            self.path(r.fn["path"])
            if r.fn.get("ret"):
                self.emit("->")
                self.path(r.fn["ret"])
            self.emit(")")
            self.emit(r.name)
            self.emit(";")

    def char_part(self, c):
        # CharRangePart = "'" @:StringItem "'"  (single quotes only)
        return "'" + spell_char(peg.cp_of(c), "'", self.rnd, self.style) + "'"

    def text(self, g):
        for r in g.rules:
            self.rule(r)
        out = []
        prev = ""
        rnd = self.rnd
        if self.style != "plain" and rnd.random() < 0.5:
            out.append(rnd.choice(SEPS))
        for t in self.toks:
            need = bool(prev) and (prev[-1].isalnum() or prev[-1] == "_") and (t[0].isalnum() or t[0] == "_")
            # `..` directly after `.`-free tokens is fine; `}` `+`, `@` `:` may be glued or not
            if self.style == "plain":
                sep = " " if (prev and prev not in "([{!&>" and t not in ")]};:" and not (prev == ":" or prev == "*")) else ""
                if need and not sep:
                    sep = " "
                if t == "=" or prev == "=" or t == "|" or prev == "|":
                    sep = " "
                if prev == ";":
                    sep = "\n"
            else:
                k = rnd.random()
                if need or k < 0.55:
                    sep = rnd.choice(SEPS)
                    if rnd.random() < 0.2:
                        sep += rnd.choice(SEPS)
                else:
                    sep = ""
            out.append(sep)
            out.append(t)
            prev = t
        out.append("\n" if self.style == "plain" or rnd.random() < 0.7 else "")
        return "".join(out)


def layout_text(g, rnd, style="wild"):
    return Layout(rnd, style).text(g)


# ----------------------------------------------------------------------------- tree -> AST

class TreeError(Exception):
    pass


def s_of(v):
    return "".join(chr(c) for c in v["$s"])


def decode_item(v):
    """StringItem -> code point, as doc/syntax.md defines the escapes"""
    n = v["$"]
    if n == "char":
        return v["0"]["$c"]
    x = v["0"]
    if n == "SimpleEscape":
        return {"SimpleEscapeNewline": 10, "SimpleEscapeCarriageReturn": 13, "SimpleEscapeTab": 9, "SimpleEscapeBackslash": 92,
                "SimpleEscapeQuote": 39, "SimpleEscapeDQuote": 34}[x["$"]]
    if n == "HexaEscape":
        return int(chr(x["c1"]["$c"]) + chr(x["c2"]["$c"]), 16)
    if n == "Utf8Escape":
        ds = chr(x["c1"]["$c"])
        for k in ("c2", "c3", "c4", "c5", "c6"):
            o = x[k]
            if isinstance(o, dict) and o.get("$") == "Some":
                ds += chr(o["0"]["$c"])
            elif isinstance(o, dict) and "$c" in o:
                ds += chr(o["$c"])
        return int(ds, 16)
    raise TreeError("string item " + n)


def is_some(v):
    return isinstance(v, dict) and v.get("$") == "Some"


def expr_of(v):
    """a Choice node -> AST"""
    alts = []
    for s in v["choices"]:
        parts = [delim_of(p) for p in s["parts"]]
        alts.append(parts[0] if len(parts) == 1 else peg.Seq(*parts))
    return alts[0] if len(alts) == 1 else peg.Choice(*alts)


def delim_of(v):
    n, x = v["$"], v["0"]
    if n == "Group":
        return expr_of(x["body"])
    if n == "Optional":
        return peg.Opt(expr_of(x["body"]))
    if n == "Closure":
        return peg.Clo(expr_of(x["body"]), plus=is_some(x["at_least_one"]))
    if n == "NegativeLookahead":
        return peg.Neg(delim_of(x["expr"]))
    if n == "PositiveLookahead":
        return peg.Pos(delim_of(x["expr"]))
    if n == "CharacterRange":
        return peg.Range(decode_item(x["from"]), decode_item(x["to"]))
    if n == "StringLiteral":
        return peg.Lit(None, ci=is_some(x["insensitive"]), cps=[decode_item(i) for i in x["body"]])
    if n == "EndOfInput":
        return peg.Eoi()
    if n == "IncludeRule":
        return peg.Inc(s_of(x["rule"]))
    if n == "Field":
        f = None
        if is_some(x["name"]):
            nm = x["name"]["0"]
            f = "@" if nm["$"] == "OverrideMarker" else s_of(nm["0"])
        return peg.Call(s_of(x["typ"]), f, is_some(x["boxed"]))
    raise TreeError("expression " + n)


def grammar_of(tree, gid="t"):
    rules = []
    for rv in tree["rules"]:
        n, x = rv["$"], rv["0"]
        if n == "Rule":
            fl = {}
            checks = []
            for d in x["directives"]:
                dn = d["$"]
                if dn == "CheckDirective":
                    p = "::".join(s_of(s) for s in d["0"]["function"])
                    checks.append({"o": "unknown", "path": p, "name": p})
                else:
                    fl[{"StringDirective": "string", "NoSkipWsDirective": "no_skip_ws", "ExportDirective": "export",
                        "PositionDirective": "position", "MemoizeDirective": "memoize", "LeftrecDirective": "leftrec"}[dn]] = True
            rules.append(peg.Rule(s_of(x["name"]), expr_of(x["definition"]), checks=checks, **fl))
        elif n == "CharRule":
            parts = []
            for c in x["choices"]:
                cn = c["$"]
                if cn == "CharacterRange":
                    parts.append(("range", decode_item(c["0"]["from"]), decode_item(c["0"]["to"])))
                elif cn == "CharRangePart":
                    parts.append(("lit", decode_item(c["0"])))
                else:
                    parts.append(("ref", s_of(c["0"])))
            checks = []
            for d in x["directives"]:
                p = "::".join(s_of(s) for s in d["function"])
                checks.append({"o": "unknown", "path": p, "name": p})
            rules.append(peg.CharRule(s_of(x["name"]), parts, checks))
        elif n == "ExternRule":
            dv = x["directive"]
            ret = None
            if is_some(dv["return_type"]):
                ret = "::".join(s_of(s) for s in dv["return_type"]["0"])
            rules.append(peg.ExternRule(s_of(x["name"]), {"o": "unknown", "path": "::".join(s_of(s) for s in dv["function"]),
                                                        "ret": ret, "nullable": True}))
        else:
            raise TreeError("rule kind " + n)
    return peg.Grammar(gid, rules, root=rules[0].name if rules else "S")
