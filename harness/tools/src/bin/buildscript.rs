// C18 harness: replays TLC-generated histories of {edit grammar, change prefix, delete destination,
// run} against the real `peginator_codegen::Compile` in a scratch directory and reports, after every
// run, the real state projected to what spec/BuildScript.tla talks about.
//
// input lines:  <mode> \t <format 0|1> \t step;step;...   steps: e:<src> | p:<prefix id> | d | r
// output: one JSON line per history: {"runs":[{"i":..,"ok":..,"exists":..,"fresh":..,"same":..,
//         "touched":..,"was_current":..,"src":..,"prefix":..,"old_prefix_of_dest":..}]}
use std::io::{BufRead, Write};
use std::path::{Path, PathBuf};
use std::str::FromStr;
use std::time::{Duration, SystemTime};

use peginator_codegen::{generate_source_header, CodegenGrammar, CodegenSettings, Compile, Grammar};

/// second set of concrete grammars: the valid ones and the syntactically invalid one differ from each
/// other only in their last bytes and have the same length (63 mod 64), so an up-to-date test that
/// does not look at the whole grammar is exposed
fn grammar_text_tail(id: &str) -> Option<&'static str> {
    match id {
        "g1" => Some("@export\nA = 'a' [x:B];\n# padding padding padd\nB = 'b' ['c'];\n"),
        "g2" => Some("@export\nA = 'a' [x:B];\n# padding padding padd\nB = 'b' ['d'];\n"),
        "bad_syn" => Some("@export\nA = 'a' [x:B];\n# padding padding padd\nB = 'b' ['c'(;\n"),
        "bad_sem" => Some("@export\nA = 'a' [x:B];\n# padding padding pad\nB = 'b' !(y:A);\n"),
        _ => None,
    }
}

fn grammar_text(id: &str) -> Option<&'static str> {
    if let Some(rest) = id.strip_prefix("tail:") {
        return grammar_text_tail(rest);
    }
    // third set: the two valid grammars differ only in their line endings (CR LF / LF); one line ending lies inside
    // a literal, so they are different grammars with different parsers
    if let Some(rest) = id.strip_prefix("crlf:") {
        return match rest {
            "g1" => Some("@export\r\nA = 'a\r\nb' [x:B];\r\nB = 'b';\r\n"),
            "g2" => Some("@export\nA = 'a\nb' [x:B];\nB = 'b';\n"),
            other => grammar_text(other),
        };
    }
    // fourth set: the texts differ in nothing but the white space after the last token - a final comment with and
    // without its newline (without it the text is no grammar), trailing blank lines
    if let Some(rest) = id.strip_prefix("ws:") {
        return match rest {
            "g1" => Some("@export\nA = 'a' [x:B];\nB = 'b';\n# the end\n"),
            "g2" => Some("@export\nA = 'a' [x:B];\nB = 'b';\n# the end\n\n \t\n"),
            "bad_syn" => Some("@export\nA = 'a' [x:B];\nB = 'b';\n# the end"),
            other => grammar_text(other),
        };
    }
    match id {
        "g1" => Some("@export\nA = 'a' [x:B];\nB = 'b';\n"),
        "g2" => Some("@export\nA = {x:B | y:C};\nB = 'b';\n@string\nC = 'c' char;\n"),
        "bad_syn" => Some("@export\nA = 'a' (;\n"),
        "bad_sem" => Some("@export\nA = !(x:B) 'a';\nB = 'b';\n"),
        _ => None,
    }
}

/// `wide`: the same prefixes spelled with characters of 2, 3 and 4 bytes (byte length != character count)
fn prefix_text(id: &str, wide: bool) -> &'static str {
    if wide {
        match id {
            "p" => return "// \u{e9}\u{20ac}\u{1d11e} p",
            "pq" => return "// \u{e9}\u{20ac}\u{1d11e} p q",
            _ => {}
        }
    }
    match id {
        "" => "",
        "p" => "// p",
        "pq" => "// p q",
        "u" => "use  std::fmt::Debug  as  _;",
        _ => panic!("prefix id"),
    }
}

/// CRC-32/ISO-HDLC of the bytes of the grammar file, computed here (bit by bit) and not by the library
fn crc32(data: &[u8]) -> u32 {
    let mut crc = 0xFFFF_FFFFu32;
    for b in data {
        crc ^= *b as u32;
        for _ in 0..8 {
            crc = if crc & 1 == 1 { (crc >> 1) ^ 0xEDB8_8320 } else { crc >> 1 };
        }
    }
    !crc
}

/// The destination says of itself which grammar file it is the compilation of: when its leading comment block has
/// a line "... CRC-32/ISO-HDLC of the grammar file: <hex>", that value must be the checksum of the grammar file as it
/// is now. (A header that makes no such statement - reworded, another algorithm - is not judged here.)
fn names_grammar_file(dest: &Option<Vec<u8>>, src: &str) -> bool {
    let (d, t) = match (dest, grammar_text(src)) {
        (Some(d), Some(t)) => (String::from_utf8_lossy(d).into_owned(), t),
        _ => return false,
    };
    for line in d.lines().take_while(|l| l.starts_with("//")) {
        if let Some(k) = line.find("CRC-32/ISO-HDLC of the grammar file") {
            let hex: String = line[k..].split(|c: char| !c.is_ascii_hexdigit()).find(|w| w.len() == 8).unwrap_or("").to_string();
            if !hex.is_empty() {
                return hex.eq_ignore_ascii_case(&format!("{:08x}", crc32(t.as_bytes())));
            }
        }
    }
    true
}

fn rustfmt(path: &Path) {
    let _ = std::process::Command::new("rustfmt").arg(path).status();
}

/// header, prefix, code - compiled afresh through the library, formatted if asked
fn expected(dir: &Path, src: &str, prefix: &str, format: bool) -> Option<Vec<u8>> {
    let text = grammar_text(src)?;
    let g = Grammar::from_str(text).ok()?;
    let code = g.generate_code(&CodegenSettings::default()).ok()?;
    let s = format!("{}\n{}\n{}", generate_source_header(text), prefix, code);
    if format {
        let p = dir.join("expected_scratch.rs");
        std::fs::write(&p, s).unwrap();
        rustfmt(&p);
        Some(std::fs::read(&p).unwrap())
    } else {
        Some(s.into_bytes())
    }
}

/// directory mode with two grammar files (spec/BuildScriptDir.tla): steps e:<file>:<src> | d:<file> | r
fn replay_dir2(dir: &Path, steps: &str) -> String {
    let _ = std::fs::remove_dir_all(dir);
    std::fs::create_dir_all(dir.join("src")).unwrap();
    let files = ["a", "b"];
    let mut src: std::collections::HashMap<&str, String> = files.iter().map(|f| (*f, "g1".to_string())).collect();
    let text = |g: &str| -> &'static str {
        match g {
            "bad" => "@export\nA = 'a' (;\n",
            other => grammar_text(other).unwrap(),
        }
    };
    for f in files {
        std::fs::write(dir.join("src").join(format!("{f}.ebnf")), text("g1")).unwrap();
    }
    let mut runs = String::new();
    for (i, st) in steps.split(';').enumerate() {
        let parts: Vec<&str> = st.split(':').collect();
        match parts[0] {
            "e" => {
                let f = files.iter().find(|x| **x == parts[1]).unwrap();
                src.insert(f, parts[2].to_string());
                std::fs::write(dir.join("src").join(format!("{f}.ebnf")), text(parts[2])).unwrap();
            }
            "d" => {
                let _ = std::fs::remove_file(dir.join("src").join(format!("{}.rs", parts[1])));
            }
            "r" => {
                let before: Vec<Option<Vec<u8>>> =
                    files.iter().map(|f| std::fs::read(dir.join("src").join(format!("{f}.rs"))).ok()).collect();
                let res = std::panic::catch_unwind(std::panic::AssertUnwindSafe(|| Compile::directory(dir.join("src")).run()));
                let (ok, panicked) = match &res {
                    Ok(Ok(())) => (true, false),
                    Ok(Err(_)) => (false, false),
                    Err(_) => (false, true),
                };
                let mut fjs = String::new();
                for (k, f) in files.iter().enumerate() {
                    let after = std::fs::read(dir.join("src").join(format!("{f}.rs"))).ok();
                    let exp = expected(dir, &src[f], "", false);
                    if k > 0 {
                        fjs.push(',');
                    }
                    fjs.push_str(&format!(
                        "\"{}\":{{\"src\":\"{}\",\"valid\":{},\"fresh\":{},\"same\":{}}}",
                        f,
                        src[f],
                        exp.is_some(),
                        after.is_some() && after == exp,
                        after == before[k]
                    ));
                }
                if !runs.is_empty() {
                    runs.push(',');
                }
                runs.push_str(&format!("{{\"i\":{},\"ok\":{},\"panic\":{},\"files\":{{{}}}}}", i, ok, panicked, fjs));
            }
            _ => {}
        }
    }
    format!("{{\"runs\":[{}]}}", runs)
}

fn main() {
    let args: Vec<String> = std::env::args().collect();
    let f = std::fs::File::open(&args[1]).unwrap();
    let mut out = std::io::BufWriter::new(std::fs::File::create(&args[2]).unwrap());
    let root = PathBuf::from(&args[3]);
    let old = SystemTime::UNIX_EPOCH + Duration::from_secs(1_000_000_000);
    let mut cache: std::collections::HashMap<(String, String, bool), Option<Vec<u8>>> = Default::default();
    for (n, line) in std::io::BufReader::new(f).lines().enumerate() {
        let line = line.unwrap();
        let p: Vec<&str> = line.split('\t').collect();
        let (mode, format, steps) = (p[0], p[1] == "1", p[2]);
        let (mode, wide) = match mode.strip_suffix("+wide") {
            Some(m) => (m, true),
            None => (mode, false),
        };
        let (mode, crlf) = match mode.strip_suffix("+crlf") {
            Some(m) => (m, true),
            None => (mode, false),
        };
        // every grammar text is moved into place with a modification time OLDER than any destination's (a restored
        // backup, `cp -p`, an archive extraction): what is current is decided by content, not by time stamps
        let (mode, ws) = match mode.strip_suffix("+ws") {
            Some(m) => (m, true),
            None => (mode, false),
        };
        let (mode, oldsrc) = match mode.strip_suffix("+oldsrc") {
            Some(m) => (m, true),
            None => (mode, false),
        };
        // the grammar file's name has more than one dot; in directory mode a sibling shares its first component
        let (mode, dots) = match mode.strip_suffix("+dots") {
            Some(m) => (m, true),
            None => (mode, false),
        };
        if mode == "dir2" {
            let dir = root.join(format!("d{}", n % 64));
            writeln!(out, "{}", replay_dir2(&dir, steps)).unwrap();
            continue;
        }
        let dir = root.join(format!("h{}", n % 64));
        let _ = std::fs::remove_dir_all(&dir);
        std::fs::create_dir_all(dir.join("src")).unwrap();
        let stem = if dots { "gram.mar.v2" } else { "grammar" };
        let src_path = dir.join("src").join(format!("{stem}.ebnf"));
        let dest_path = match mode {
            "dest" => dir.join("out_grammar.rs"),
            _ => dir.join("src").join(format!("{stem}.rs")),
        };
        if dots && mode == "dir" {
            std::fs::write(dir.join("src").join("gram.ebnf"), "@export\nOther = 'o';\n").unwrap();
            std::fs::write(dir.join("src").join("gram.mar.ebnf"), "@export\nOther2 = 'p';\n").unwrap();
        }
        let set = if crlf { "crlf:" } else if ws { "ws:" } else if mode == "dest" { "tail:" } else { "" };
        let mut src = format!("{set}g1");
        if steps.starts_with("i:missing") {
            src = "missing".into();
        } else {
            std::fs::write(&src_path, grammar_text(&src).unwrap()).unwrap();
        }
        // what lies at the destination before the first run: nothing, an empty placeholder, or the beginning of
        // the file that belongs there (a write interrupted in the middle of the header)
        let init = steps.split(';').next().unwrap_or("");
        if init.ends_with(":empty") {
            std::fs::write(&dest_path, b"").unwrap();
        } else if init.ends_with(":cut") {
            let full = expected(&dir, &src, "", false).unwrap();
            std::fs::write(&dest_path, &full[..40.min(full.len())]).unwrap();
        }
        let mut prefix = String::new();
        let mut dest_prefix = String::new(); // the prefix the destination was last written with
        let mut runs = String::new();
        for (i, st) in steps.split(';').enumerate() {
            if st.is_empty() || st.starts_with("i:") {
                continue;
            }
            if let Some(g) = st.strip_prefix("e:") {
                src = if g == "missing" { g.to_string() } else { format!("{set}{g}") };
                match grammar_text(&src) {
                    Some(t) => {
                        std::fs::write(&src_path, t).unwrap();
                        if oldsrc {
                            let older = SystemTime::UNIX_EPOCH + Duration::from_secs(900_000_000);
                            std::fs::File::options().write(true).open(&src_path).unwrap().set_modified(older).unwrap();
                        }
                    }
                    None => {
                        let _ = std::fs::remove_file(&src_path);
                    }
                }
            } else if let Some(pid) = st.strip_prefix("p:") {
                prefix = pid.to_string();
            } else if st == "d" {
                let _ = std::fs::remove_file(&dest_path);
            } else if st == "r" {
                let before = std::fs::read(&dest_path).ok();
                if before.is_some() {
                    std::fs::File::options().write(true).open(&dest_path).unwrap().set_modified(old).unwrap();
                }
                let key = (src.clone(), format!("{prefix}{wide}"), format);
                let exp = cache
                    .entry(key)
                    .or_insert_with(|| expected(&dir, &src, prefix_text(&prefix, wide), format))
                    .clone();
                let was_current = before.is_some() && before == exp;
                let mut c = match mode {
                    "dir" => Compile::directory(dir.join("src")),
                    // the grammar's directory reached through a symbolic link inside the compiled tree
                    "dirlink" => {
                        let top = dir.join("top");
                        if !top.exists() {
                            std::fs::create_dir_all(&top).unwrap();
                            std::os::unix::fs::symlink(dir.join("src"), top.join("sub")).unwrap();
                        }
                        Compile::directory(top)
                    }
                    "dest" => Compile::file(&src_path).destination(&dest_path),
                    _ => Compile::file(&src_path),
                };
                c = c.prefix(prefix_text(&prefix, wide).to_string());
                if format {
                    c = c.format();
                }
                let res = std::panic::catch_unwind(std::panic::AssertUnwindSafe(|| c.run()));
                let (ok, panicked) = match &res {
                    Ok(Ok(())) => (true, false),
                    Ok(Err(_)) => (false, false),
                    Err(_) => (false, true),
                };
                let after = std::fs::read(&dest_path).ok();
                let touched = match std::fs::metadata(&dest_path).and_then(|m| m.modified()) {
                    Ok(t) => before.is_some() && t != old,
                    Err(_) => false,
                };
                let fresh = after.is_some() && after == exp && names_grammar_file(&after, &src);
                let same = after == before;
                if ok && after != before {
                    dest_prefix = prefix.clone();
                }
                if !runs.is_empty() {
                    runs.push(',');
                }
                runs.push_str(&format!(
                    "{{\"i\":{},\"ok\":{},\"panic\":{},\"exists\":{},\"fresh\":{},\"same\":{},\"touched\":{},\"was_current\":{},\"src\":\"{}\",\"prefix\":\"{}\",\"dest_prefix\":\"{}\",\"valid\":{}}}",
                    i, ok, panicked, after.is_some(), fresh, same, touched, was_current, src, prefix, dest_prefix, exp.is_some()
                ));
            }
        }
        writeln!(out, "{{\"runs\":[{}]}}", runs).unwrap();
    }
    let _ = std::fs::remove_dir_all(&root);
}
