// C15 / C16 / C17 harness: the grammar compiler through its library doors, one case per process.
//   front lib <grammar.ebnf> <derives|-> [out.rs]     -> prints "code" or "error\t<message>"
//   front compile <grammar.ebnf> <derives|-> <dest.rs> [prefix] -> prints "ok" or "err\t<message>"
//   front ast <grammar.ebnf>                            -> prints Debug of the Grammar, or "error\t<pos>\t<specifics>"
// A panic exits with status 101 (Rust default), a stack overflow kills the process with a signal.
use std::str::FromStr;

use peginator_codegen::{CodegenGrammar, CodegenSettings, Compile, Grammar};

fn derives(a: &str) -> Option<Vec<String>> {
    if a == "-" {
        None
    } else {
        Some(a.split(',').filter(|s| !s.is_empty()).map(|s| s.to_string()).collect())
    }
}

fn main() {
    let args: Vec<String> = std::env::args().collect();
    let door = args[1].as_str();
    match door {
        "lib" => {
            let text = std::fs::read_to_string(&args[2]).expect("read grammar");
            let mut settings = CodegenSettings::default();
            if let Some(d) = derives(&args[3]) {
                settings.derives = d;
            }
            // optional user context type (C16: the same settings through every route)
            if let Ok(ctx) = std::env::var("VERIF_CTX") {
                settings.set_user_context_type(&ctx);
            }
            let r = match Grammar::from_str(&text) {
                Err(e) => Err(format!("parse error at {}: {:?}", e.position, e.specifics)),
                Ok(g) => g.generate_code(&settings).map_err(|e| format!("{e:#}")),
            };
            match r {
                Ok(ts) => {
                    if let Some(out) = args.get(4) {
                        std::fs::write(out, ts.to_string()).unwrap();
                    }
                    println!("code");
                }
                Err(m) => println!("error\t{}", m.replace('\n', " ")),
            }
        }
        "compile" => {
            let mut c = Compile::file(&args[2]).destination(&args[4]);
            // the builder calls in either order must give the same settings
            let ctx = std::env::var("VERIF_CTX").ok();
            let ctx_first = std::env::var("VERIF_CTX_ORDER").map(|o| o == "first").unwrap_or(false);
            if let (Some(t), true) = (&ctx, ctx_first) {
                c = c.user_context_type(t);
            }
            if let Some(d) = derives(&args[3]) {
                c = c.derives(d);
            }
            if let (Some(t), false) = (&ctx, ctx_first) {
                c = c.user_context_type(t);
            }
            if let Some(p) = args.get(5) {
                c = c.prefix(p.clone());
            }
            match c.run() {
                Ok(()) => println!("ok"),
                Err(e) => println!("err\t{}", format!("{e:#}").replace('\n', " ")),
            }
        }
        "compile_exit" => {
            // the build-script helper's own exit path: run_exit_on_error() must exit non-zero on failure
            let mut c = Compile::file(&args[2]).destination(&args[4]);
            if let Some(d) = derives(&args[3]) {
                c = c.derives(d);
            }
            c.run_exit_on_error();
            println!("ok");
        }
        "compiledir" => {
            // Compile::directory over a directory tree [derives|-] [prefix]: prints "ok" or "err\t<message>"
            let mut c = Compile::directory(&args[2]);
            let ctx = std::env::var("VERIF_CTX").ok();
            let ctx_first = std::env::var("VERIF_CTX_ORDER").map(|o| o == "first").unwrap_or(false);
            if let (Some(t), true) = (&ctx, ctx_first) {
                c = c.user_context_type(t);
            }
            if let Some(d) = args.get(3).and_then(|a| derives(a)) {
                c = c.derives(d);
            }
            if let (Some(t), false) = (&ctx, ctx_first) {
                c = c.user_context_type(t);
            }
            if let Some(p) = args.get(4) {
                c = c.prefix(p.clone());
            }
            match c.run() {
                Ok(()) => println!("ok"),
                Err(e) => println!("err\t{}", format!("{e:#}").replace('\n', " ")),
            }
        }
        "libseq" => {
            // many grammars through the library in ONE process, in the given order: one line per grammar,
            // "code <crc32 of the code>" or "error"; args: pairs <grammar.ebnf> <derives|->
            let mut i = 2;
            while i + 1 < args.len() {
                let text = std::fs::read_to_string(&args[i]).expect("read grammar");
                let mut settings = CodegenSettings::default();
                if let Some(d) = derives(&args[i + 1]) {
                    settings.derives = d;
                }
                let r = std::panic::catch_unwind(|| match Grammar::from_str(&text) {
                    Err(_) => None,
                    Ok(g) => g.generate_code(&settings).ok().map(|ts| ts.to_string()),
                });
                match r {
                    Ok(Some(code)) => {
                        let h = code.bytes().fold(0xcbf29ce484222325u64, |a, b| (a ^ b as u64).wrapping_mul(0x100000001b3));
                        println!("code {:016x}", h)
                    }
                    Ok(None) => println!("error"),
                    Err(_) => println!("panic"),
                }
                i += 2;
            }
        }
        "astparse" => {
            // the generated parser itself (PegParser::parse, what the command line tool and bootstrap.sh use), not the
            // FromStr wrapper around it: both are "the front end" and must read every text alike
            use peginator::PegParser;
            let text = std::fs::read_to_string(&args[2]).expect("read grammar");
            match Grammar::parse(&text) {
                Ok(g) => println!("{:?}", g),
                Err(e) => println!("error\t{}\t{:?}", e.position, e.specifics),
            }
        }
        "ast" => {
            let text = std::fs::read_to_string(&args[2]).expect("read grammar");
            match Grammar::from_str(&text) {
                Ok(g) => println!("{:?}", g),
                Err(e) => println!("error\t{}\t{:?}", e.position, e.specifics),
            }
        }
        _ => {
            eprintln!("unknown door");
            std::process::exit(2);
        }
    }
}
