// C11 harness: PrettyParseError::from_parse_error on (text, position) cases.
// input lines: hex(text) \t position \t file|-   output: one JSON object per line
use std::io::{BufRead, Write};
use std::panic::{catch_unwind, AssertUnwindSafe};

use peginator::{ParseError, ParseErrorSpecifics, PrettyParseError};

fn jstr(s: &str) -> String {
    let mut o = String::from("\"");
    for c in s.chars() {
        match c {
            '"' => o.push_str("\\\""),
            '\\' => o.push_str("\\\\"),
            '\n' => o.push_str("\\n"),
            '\r' => o.push_str("\\r"),
            '\t' => o.push_str("\\t"),
            c if (c as u32) < 0x20 => o.push_str(&format!("\\u{:04x}", c as u32)),
            c => o.push(c),
        }
    }
    o.push('"');
    o
}

fn unhex(s: &str) -> String {
    let b: Vec<u8> = (0..s.len() / 2).map(|i| u8::from_str_radix(&s[2 * i..2 * i + 2], 16).unwrap()).collect();
    String::from_utf8(b).unwrap()
}

fn render(text: &str, pos: usize, file: Option<&str>) -> Result<String, String> {
    catch_unwind(AssertUnwindSafe(|| {
        let e = ParseError { position: pos, specifics: ParseErrorSpecifics::ExpectedEoi };
        format!("{}", PrettyParseError::from_parse_error(&e, text, file))
    }))
    .map_err(|p| {
        p.downcast_ref::<String>().cloned().or_else(|| p.downcast_ref::<&str>().map(|s| s.to_string())).unwrap_or_default()
    })
}

fn main() {
    let args: Vec<String> = std::env::args().collect();
    std::panic::set_hook(Box::new(|_| {}));
    let f = std::fs::File::open(&args[1]).unwrap();
    let mut out = std::io::BufWriter::new(std::fs::File::create(&args[2]).unwrap());
    for line in std::io::BufReader::new(f).lines() {
        let line = line.unwrap();
        let p: Vec<&str> = line.split('\t').collect();
        let text = unhex(p[0]);
        let pos: usize = p[1].parse().unwrap();
        let file = if p[2] == "-" { None } else { Some(p[2]) };
        colored::control::set_override(false);
        let plain = render(&text, pos, file);
        colored::control::set_override(true);
        let col = render(&text, pos, file);
        let j = |r: &Result<String, String>| match r {
            Ok(s) => format!("{{\"display\":{}}}", jstr(s)),
            Err(m) => format!("{{\"panic\":{}}}", jstr(m)),
        };
        writeln!(out, "{{\"plain\":{},\"colored\":{}}}", j(&plain), j(&col)).unwrap();
    }
}
