// Compiles every grammar of the corpus directory with /repo's code generator (library route)
// and writes a dispatch table.  Corpus layout: meta.tsv (id \t root \t derives \t ctx \t flags),
// <id>.ebnf, optional <id>.user.rs (user functions, included next to the generated module).
use std::fmt::Write as _;
use std::str::FromStr;

use peginator_codegen::{CodegenGrammar, CodegenSettings, Grammar};

fn main() {
    let crate_dir = std::env::var("CARGO_MANIFEST_DIR").unwrap();
    let corpus = std::fs::read_to_string(format!("{crate_dir}/corpus_dir")).unwrap().trim().to_string();
    let out = std::env::var("OUT_DIR").unwrap();
    println!("cargo:rerun-if-changed={crate_dir}/corpus_dir");
    println!("cargo:rerun-if-changed={corpus}/meta.tsv");
    println!("cargo:rerun-if-changed={corpus}/stamp");
    let meta = std::fs::read_to_string(format!("{corpus}/meta.tsv")).unwrap();
    let mut cases = String::new();
    let mut table = String::from("pub static TABLE: &[(&str, verif_common::CaseFn)] = &[\n");
    let mut front = String::new(); // what the compiler front end said, per grammar
    for line in meta.lines() {
        let f: Vec<&str> = line.split('\t').collect();
        if f.len() < 5 {
            continue;
        }
        let (id, root, derives, ctx, flags) = (f[0], f[1], f[2], f[3], f[4]);
        let text = std::fs::read_to_string(format!("{corpus}/{id}.ebnf")).unwrap();
        let mut settings = CodegenSettings::default();
        if derives != "-" {
            settings.derives = derives.split(',').filter(|s| !s.is_empty()).map(|s| s.to_string()).collect();
        }
        if ctx != "-" {
            settings.set_user_context_type(ctx);
        }
        let code = std::panic::catch_unwind(std::panic::AssertUnwindSafe(|| match Grammar::from_str(&text) {
            Err(e) => Err(format!("parse error at {}: {:?}", e.position, e.specifics)),
            Ok(g) => g.generate_code(&settings).map_err(|e| format!("{e:#}")),
        }))
        .unwrap_or_else(|p| {
            let m = p.downcast_ref::<String>().cloned().or_else(|| p.downcast_ref::<&str>().map(|s| s.to_string()));
            Err(format!("PANIC {}", m.unwrap_or_default()))
        });
        match code {
            Err(msg) => {
                let _ = writeln!(front, "{id}\terror\t{}", msg.replace(['\n', '\r', '\t'], " "));
            }
            Ok(ts) => {
                let _ = writeln!(front, "{id}\tcode\t");
                std::fs::write(format!("{out}/{id}.rs"), ts.to_string()).unwrap();
                if flags.contains("nocompile") {
                    continue;
                }
                let user = format!("{corpus}/{id}.user.rs");
                let user_inc = if std::path::Path::new(&user).exists() {
                    format!("include!(\"{user}\");")
                } else {
                    String::new()
                };
                let call = if flags.contains("typesonly") {
                    // compile-only member (C03): its types may lack Debug, nothing is run
                    String::from("String::new()")
                } else if flags.contains("macro") {
                    // the same grammar through the peginate! macro: outcomes must be identical
                    format!(
                        "{{ let a = verif_common::run_plain::<grammar::{root}>(gid, input, ind); \
                            let b = verif_common::run_plain::<mac::{root}>(gid, input, ind); \
                            format!(\"{{}},\\\"macro_same\\\":{{}}}}}}\", &a[..a.len() - 1], a == b) }}"
                    )
                } else if flags.contains("observe") {
                    format!("verif_common::run_plain_obs::<grammar::{root}>(gid, input, ind, user::observe)")
                } else if ctx == "-" {
                    format!("verif_common::run_plain::<grammar::{root}>(gid, input, ind)")
                } else {
                    format!("verif_common::run_ctx::<{ctx}, grammar::{root}>(gid, input, ind)")
                };
                let mac = if flags.contains("macro") {
                    format!("pub mod mac {{ peginator_macro::peginate!(r####\"{text}\"####); }}")
                } else {
                    String::new()
                };
                // C03 observes `unsafe` through forbid(unsafe_code) in its own family; elsewhere a generator that
                // emits `unsafe` must still be runnable so that the other properties can be judged
                let forbid = if flags.contains("typesonly") { "#![forbid(unsafe_code)]" } else { "#![allow(unsafe_code)]" };
                let _ = writeln!(
                    cases,
                    "#[allow(non_snake_case, non_camel_case_types, unused_imports, dead_code, clippy::all)]\n\
                     pub mod g_{id} {{\n\
                         pub mod grammar {{ {forbid} include!(concat!(env!(\"OUT_DIR\"), \"/{id}.rs\")); }}\n\
                         pub mod user {{ #![allow(unused)] use super::grammar::*; pub use verif_common::oracles::*; {user_inc} }}\n\
                         {mac}\n\
                         pub fn run(gid: &str, input: &str, ind: bool) -> String {{ {call} }}\n\
                     }}"
                );
                if !flags.contains("typesonly") {
                    let _ = writeln!(table, "    (\"{id}\", g_{id}::run as verif_common::CaseFn),");
                }
            }
        }
    }
    table.push_str("];\n");
    std::fs::write(format!("{out}/cases.rs"), format!("{cases}\n{table}")).unwrap();
    std::fs::write(format!("{crate_dir}/front.tsv"), front).unwrap();
}
