#![recursion_limit = "2048"]
// Family runner: the generated parsers of one corpus family behind a dispatch table.
mod cases {
    include!(concat!(env!("OUT_DIR"), "/cases.rs"));
}

fn main() {
    // corpora contain deeply nested inputs; the stack limit of the main thread is not what is studied
    std::thread::Builder::new()
        .stack_size(1 << 30)
        .spawn(|| verif_common::runner_main(cases::TABLE))
        .expect("spawn")
        .join()
        .expect("runner");
}
