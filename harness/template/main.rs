// Family runner: the generated parsers of one corpus family behind a dispatch table.
mod cases {
    include!(concat!(env!("OUT_DIR"), "/cases.rs"));
}

fn main() {
    verif_common::runner_main(cases::TABLE);
}
