//! User-function library: the Rust mirror of ExternOracle / CheckOracle / CharCheckOracle in
//! spec/PegValues.tla.  Every function records its call (and what it was given).
use std::fmt::Debug;

use crate::{offset_of, push, Ev};

type Ext<T> = Result<(T, usize), &'static str>;

/// for extern functions generated next to a grammar: record the call like the library functions do
pub fn log_ext_call<T>(name: &'static str, s: &str, r: &Result<(T, usize), &'static str>) {
    log_ext(name, s, r)
}

fn log_ext<T>(name: &'static str, s: &str, r: &Ext<T>) {
    push(Ev::Ext {
        name,
        pos: offset_of(s),
        ok: r.is_ok(),
        len: r.as_ref().map(|x| x.1).unwrap_or(0),
    });
}

/// one or more ASCII digits
pub fn ext_digits(s: &str) -> Ext<String> {
    let n = s.bytes().take_while(|b| b.is_ascii_digit()).count();
    let r = if n == 0 { Err("expected digits") } else { Ok((s[..n].to_string(), n)) };
    log_ext("ext_digits", s, &r);
    r
}

/// exactly two characters (of any width); returns &str, converted by `into`
pub fn ext_two(s: &str) -> Ext<&str> {
    let mut it = s.char_indices();
    let r = match (it.next(), it.next()) {
        (Some(_), Some((i, c))) => {
            let n = i + c.len_utf8();
            Ok((&s[..n], n))
        }
        _ => Err("expected two characters"),
    };
    log_ext("ext_two", s, &r);
    r
}

/// digits like `ext_digits`, but panics when the remaining input starts with '!' (a user function with a bug:
/// the panic must reach the caller of parse() and leave nothing behind)
pub fn ext_bang(s: &str) -> Ext<String> {
    if s.starts_with('!') {
        push(Ev::Ext { name: "ext_bang", pos: offset_of(s), ok: false, len: 0 });
        panic!("{}", USER_PANIC);
    }
    let n = s.bytes().take_while(|b| b.is_ascii_digit()).count();
    let r = if n == 0 { Err("expected digits") } else { Ok((s[..n].to_string(), n)) };
    log_ext("ext_bang", s, &r);
    r
}
pub const USER_PANIC: &str = "verif: the user's extern function panics";

/// consumes exactly 2^32 + 5 bytes in one step when that many are there (offsets beyond 32 bits without a long parse)
pub fn ext_skip_4g(s: &str) -> Ext<String> {
    let n = (1usize << 32) + 5;
    let r = if s.len() >= n && s.is_char_boundary(n) { Ok((String::new(), n)) } else { Err("expected 4 GiB of filler") };
    log_ext("ext_skip_4g", s, &r);
    r
}

/// succeeds without consuming
pub fn ext_zero(s: &str) -> Ext<String> {
    let r = Ok((String::new(), 0));
    log_ext("ext_zero", s, &r);
    r
}

macro_rules! probe {
    ($name:ident) => {
        /// zero-length probe placed at the start of a rule body: records that the body ran
        pub fn $name(s: &str) -> Ext<String> {
            let r = Ok((String::new(), 0));
            log_ext(stringify!($name), s, &r);
            r
        }
    };
}
probe!(ext_probe_0);
probe!(ext_probe_1);
probe!(ext_probe_2);
probe!(ext_probe_3);
probe!(ext_probe_4);
probe!(ext_probe_5);

pub fn ext_fail(s: &str) -> Ext<String> {
    let r = Err("always fails");
    log_ext("ext_fail", s, &r);
    r
}

/// one upper-case ASCII letter, result type char
pub fn ext_upper(s: &str) -> Ext<char> {
    let r = match s.chars().next() {
        Some(c) if c.is_ascii_uppercase() => Ok((c, 1)),
        _ => Err("expected upper case letter"),
    };
    log_ext("ext_upper", s, &r);
    r
}

pub fn logged<T: Debug>(name: &'static str, v: &T, ok: bool) -> bool {
    push(Ev::Chk { name, ok, arg: format!("{:?}", v) });
    ok
}

pub fn chk_always<T: Debug>(v: &T) -> bool {
    logged("chk_always", v, true)
}
pub fn chk_never<T: Debug>(v: &T) -> bool {
    logged("chk_never", v, false)
}
pub fn chk_str_even(v: &String) -> bool {
    logged("chk_str_even", v, v.chars().count() % 2 == 0)
}
pub fn cchk_always(c: char) -> bool {
    logged("cchk_always", &c, true)
}
pub fn cchk_never(c: char) -> bool {
    logged("cchk_never", &c, false)
}


// ---------------------------------------------------------------------------------------------
// the same library for grammars compiled with a user context type (`&mut Ctx` as last argument)
use crate::Ctx;

pub fn ext_digits_ctx(s: &str, ctx: &mut Ctx) -> Ext<String> {
    ctx.calls += 1;
    ext_digits(s)
}
pub fn ext_two_ctx<'a>(s: &'a str, ctx: &mut Ctx) -> Ext<&'a str> {
    ctx.calls += 1;
    ext_two(s)
}
pub fn ext_zero_ctx(s: &str, ctx: &mut Ctx) -> Ext<String> {
    ctx.calls += 1;
    ext_zero(s)
}
pub fn ext_fail_ctx(s: &str, ctx: &mut Ctx) -> Ext<String> {
    ctx.calls += 1;
    ext_fail(s)
}
pub fn ext_upper_ctx(s: &str, ctx: &mut Ctx) -> Ext<char> {
    ctx.calls += 1;
    ext_upper(s)
}
pub fn chk_always_ctx<T: Debug>(v: &T, ctx: &mut Ctx) -> bool {
    ctx.calls += 1;
    chk_always(v)
}
pub fn chk_never_ctx<T: Debug>(v: &T, ctx: &mut Ctx) -> bool {
    ctx.calls += 1;
    chk_never(v)
}
pub fn chk_str_even_ctx(v: &String, ctx: &mut Ctx) -> bool {
    ctx.calls += 1;
    chk_str_even(v)
}
