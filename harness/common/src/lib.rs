//! Shared parts of the conformance harness: recording tracer, event sink, user-function
//! library (mirror of spec/PegValues.tla), JSON output, case runner.

use std::cell::RefCell;
use std::fmt::Debug;
use std::fmt::Write as _;
use std::panic::{catch_unwind, AssertUnwindSafe};

use peginator::{
    IndentedTracer, NoopTracer, ParseError, ParseResult, ParseSettings, ParseState, ParseTracer,
    PegParserAdvanced,
};

pub mod oracles;

// ------------------------------------------------------------------------------------ sink

#[derive(Debug, Clone)]
pub enum Ev {
    Enter { rule: String, pos: usize },
    Exit { ok: bool, pos: usize },
    Info { text: String },
    Ext { name: &'static str, pos: usize, ok: bool, len: usize },
    Chk { name: &'static str, ok: bool, arg: String },
}

thread_local! {
    static EVENTS: RefCell<Vec<Ev>> = const { RefCell::new(Vec::new()) };
    static INPUT_LEN: RefCell<usize> = const { RefCell::new(0) };
    static CTX_CALLS: RefCell<Option<usize>> = const { RefCell::new(None) };
}

/// The user context type of the C14 family with `user_context_type`: counts the calls that
/// received it.
#[derive(Debug, Default)]
pub struct Ctx {
    pub calls: usize,
}

pub fn push(ev: Ev) {
    EVENTS.with(|e| e.borrow_mut().push(ev));
}
pub fn take_events() -> Vec<Ev> {
    EVENTS.with(|e| std::mem::take(&mut *e.borrow_mut()))
}
pub fn set_input_len(n: usize) {
    INPUT_LEN.with(|l| *l.borrow_mut() = n);
}
pub fn input_len() -> usize {
    INPUT_LEN.with(|l| *l.borrow())
}
/// offset of a remaining-input slice in the input of the current case
pub fn offset_of(rest: &str) -> usize {
    input_len().wrapping_sub(rest.len())
}

/// A `ParseTracer` that records the callbacks (public API only).
#[derive(Debug, Clone, Copy)]
pub struct RecTracer;

impl ParseTracer for RecTracer {
    fn print_informative(&mut self, s: &str) {
        push(Ev::Info { text: s.to_string() });
    }
    fn print_trace_start(&mut self, state: &ParseState, name: &str) {
        push(Ev::Enter { rule: name.to_string(), pos: offset_of(state.s()) });
    }
    fn print_trace_result<T>(&mut self, result: &ParseResult<T>) {
        match result {
            Ok(ok) => push(Ev::Exit { ok: true, pos: offset_of(ok.state.s()) }),
            Err(e) => push(Ev::Exit { ok: false, pos: e.position }),
        }
    }
    fn new() -> Self {
        RecTracer
    }
}

// ------------------------------------------------------------------------------------ JSON

pub fn jstr(s: &str) -> String {
    let mut o = String::with_capacity(s.len() + 2);
    o.push('"');
    for c in s.chars() {
        match c {
            '"' => o.push_str("\\\""),
            '\\' => o.push_str("\\\\"),
            '\n' => o.push_str("\\n"),
            '\r' => o.push_str("\\r"),
            '\t' => o.push_str("\\t"),
            c if (c as u32) < 0x20 => {
                let _ = write!(o, "\\u{:04x}", c as u32);
            }
            c => o.push(c),
        }
    }
    o.push('"');
    o
}

fn jevents(evs: &[Ev]) -> String {
    let mut o = String::from("[");
    for (i, e) in evs.iter().enumerate() {
        if i > 0 {
            o.push(',');
        }
        match e {
            Ev::Enter { rule, pos } => {
                let _ = write!(o, "{{\"ev\":\"enter\",\"r\":{},\"p\":{}}}", jstr(rule), pos);
            }
            Ev::Exit { ok, pos } => {
                let _ = write!(o, "{{\"ev\":\"exit\",\"ok\":{},\"p\":{}}}", ok, pos);
            }
            Ev::Info { text } => {
                let _ = write!(o, "{{\"ev\":\"info\",\"t\":{}}}", jstr(text));
            }
            Ev::Ext { name, pos, ok, len } => {
                let _ = write!(
                    o,
                    "{{\"ev\":\"ext\",\"r\":{},\"p\":{},\"ok\":{},\"len\":{}}}",
                    jstr(name),
                    pos,
                    ok,
                    len
                );
            }
            Ev::Chk { name, ok, arg } => {
                let _ = write!(
                    o,
                    "{{\"ev\":\"chk\",\"r\":{},\"ok\":{},\"arg\":{}}}",
                    jstr(name),
                    ok,
                    jstr(arg)
                );
            }
        }
    }
    o.push(']');
    o
}

// ------------------------------------------------------------------------------------ running

/// result of one parse call, rendered
#[derive(Debug, Clone, PartialEq, Eq)]
pub enum Res {
    Ok(String),
    Err(usize, String),
    Panic(String),
}

impl Res {
    fn json(&self) -> String {
        match self {
            Res::Ok(d) => format!("{{\"ok\":true,\"dbg\":{}}}", jstr(d)),
            Res::Err(p, k) => format!("{{\"ok\":false,\"errp\":{},\"errk\":{}}}", p, jstr(k)),
            Res::Panic(m) => format!("{{\"panic\":{}}}", jstr(m)),
        }
    }
}

fn render<T: Debug>(r: std::thread::Result<Result<T, ParseError>>) -> Res {
    match r {
        Ok(Ok(v)) => Res::Ok(format!("{:?}", v)),
        Ok(Err(e)) => Res::Err(e.position, format!("{:?}", e.specifics)),
        Err(p) => {
            let msg = if let Some(s) = p.downcast_ref::<&str>() {
                s.to_string()
            } else if let Some(s) = p.downcast_ref::<String>() {
                s.clone()
            } else {
                "<non-string panic>".to_string()
            };
            Res::Panic(msg)
        }
    }
}

fn jverif(evs: &[peginator::verif::VerifEvent]) -> (String, String) {
    let mut advs = String::from("[");
    let mut fails = String::from("[");
    for e in evs {
        match e {
            peginator::verif::VerifEvent::Advance { from, len, checked } => {
                if advs.len() > 1 {
                    advs.push(',');
                }
                let _ = write!(advs, "[{},{},{}]", from, len, if *checked { 1 } else { 0 });
            }
            peginator::verif::VerifEvent::Fail { pos, kind } => {
                if fails.len() > 1 {
                    fails.push(',');
                }
                let _ = write!(fails, "[{},{}]", pos, jstr(kind));
            }
        }
    }
    advs.push(']');
    fails.push(']');
    (advs, fails)
}

#[derive(Debug, Clone, Copy, PartialEq, Eq)]
pub enum Mode {
    Plain,
    Rec,
    Indented,
}

thread_local! {
    static OBSERVED: RefCell<Option<String>> = const { RefCell::new(None) };
}

/// Parsers without user context, with an extra observation of the parsed value (e.g. through the
/// `PegPosition` trait) made by a function generated next to the grammar
pub fn run_plain_obs<T: PegParserAdvanced<()> + Debug>(gid: &str, input: &str, with_indented: bool, obs: fn(&T) -> String) -> String {
    OBSERVED.with(|o| *o.borrow_mut() = None);
    if let Ok(v) = catch_unwind(AssertUnwindSafe(|| T::parse_advanced::<NoopTracer>(input, &ParseSettings::default(), ()))) {
        if let Ok(v) = v {
            let s = catch_unwind(AssertUnwindSafe(|| obs(&v))).unwrap_or_else(|_| String::from("<panic>"));
            OBSERVED.with(|o| *o.borrow_mut() = Some(s));
        }
    }
    let js = run_plain::<T>(gid, input, with_indented);
    match OBSERVED.with(|o| o.borrow_mut().take()) {
        Some(s) => format!("{},\"obs\":{}}}", &js[..js.len() - 1], jstr(&s)),
        None => js,
    }
}

/// Parsers without user context
pub fn run_plain<T: PegParserAdvanced<()> + Debug>(gid: &str, input: &str, with_indented: bool) -> String {
    run_with(gid, input, with_indented, |mode| match mode {
        Mode::Plain => render(catch_unwind(AssertUnwindSafe(|| {
            T::parse_advanced::<NoopTracer>(input, &ParseSettings::default(), ())
        }))),
        Mode::Rec => render(catch_unwind(AssertUnwindSafe(|| {
            T::parse_advanced::<RecTracer>(input, &ParseSettings::default(), ())
        }))),
        Mode::Indented => render(catch_unwind(AssertUnwindSafe(|| {
            T::parse_advanced::<IndentedTracer>(input, &ParseSettings::default(), ())
        }))),
    })
}

/// Parsers with a user context `&mut C` (C: Default)
pub fn run_ctx<'c, C: Default + Debug + 'static, T>(gid: &str, input: &str, with_indented: bool) -> String
where
    T: for<'x> PegParserAdvanced<&'x mut C> + Debug,
{
    run_with(gid, input, with_indented, |mode| {
        let mut ctx = C::default();
        let r = match mode {
            Mode::Plain => render(catch_unwind(AssertUnwindSafe(|| {
                T::parse_advanced::<NoopTracer>(input, &ParseSettings::default(), &mut ctx)
            }))),
            Mode::Rec => render(catch_unwind(AssertUnwindSafe(|| {
                T::parse_advanced::<RecTracer>(input, &ParseSettings::default(), &mut ctx)
            }))),
            Mode::Indented => render(catch_unwind(AssertUnwindSafe(|| {
                T::parse_advanced::<IndentedTracer>(input, &ParseSettings::default(), &mut ctx)
            }))),
        };
        // how many user-function calls saw this context object
        let any: &dyn std::any::Any = &ctx;
        if let Some(c) = any.downcast_ref::<Ctx>() {
            CTX_CALLS.with(|x| *x.borrow_mut() = Some(c.calls));
        }
        r
    })
}

pub fn run_with(gid: &str, input: &str, with_indented: bool, parse: impl Fn(Mode) -> Res) -> String {
    set_input_len(input.len());
    // 1. plain parse, with the verification sink on: cursor advances and reported failures
    let _ = take_events();
    peginator::verif::install();
    CTX_CALLS.with(|x| *x.borrow_mut() = None);
    let plain = parse(Mode::Plain);
    let verif = peginator::verif::take();
    let user_plain = take_events();
    let ctx_calls = CTX_CALLS.with(|x| x.borrow_mut().take());
    // 2. with a recording tracer
    let rec = parse(Mode::Rec);
    let events = take_events();
    // 3. with the library's IndentedTracer (stderr is expected to be redirected)
    let ind = if with_indented { Some(parse(Mode::Indented)) } else { None };
    let _ = take_events();
    // 4. once more, plain: a parser has no hidden state
    let again = parse(Mode::Plain);
    let _ = take_events();

    // inputs of tens of kilobytes: the callback and cursor logs are not written out (results, comparisons and
    // user-function calls are)
    let huge = input.len() > 20000;
    let (advs, fails) = if huge { (String::from("[]"), String::from("[]")) } else { jverif(&verif) };
    let events = if huge { Vec::new() } else { events };
    let cps: Vec<String> = if input.len() > (1usize << 31) {
        vec![String::from("-4")] // a synthetic input: described by its case line, not listed
    } else {
        input.chars().map(|c| (c as u32).to_string()).collect()
    };
    format!(
        "{{\"g\":{},\"inp\":[{}],\"ctx_calls\":{},\"res\":{},\"rec_same\":{},\"ind_same\":{},\"again_same\":{},\"rec\":{},\"ind\":{},\"events\":{},\"user\":{},\"advs\":{},\"fails\":{}}}",
        jstr(gid),
        cps.join(","),
        match ctx_calls {
            Some(n) => n.to_string(),
            None => "null".to_string(),
        },
        plain.json(),
        rec == plain,
        match &ind {
            Some(i) => (i == &plain).to_string(),
            None => "null".to_string(),
        },
        again == plain,
        if rec == plain { "null".to_string() } else { rec.json() },
        match &ind {
            Some(i) if i != &plain => i.json(),
            _ => "null".to_string(),
        },
        jevents(&events),
        jevents(&user_plain),
        advs,
        fails
    )
}

pub fn unhex(s: &str) -> String {
    try_unhex(s).expect("input too large to allocate")
}

/// `None`: the input is described (gigabytes), and this machine cannot give the address space for it
pub fn try_unhex(s: &str) -> Option<String> {
    // "@4g:<hex byte>:<hex tail>": that (ASCII) byte 2^32 + 5 times, then the tail (offsets beyond 32 bits)
    if let Some(rest) = s.strip_prefix("@4g:") {
        let mut it = rest.split(':');
        let b = u8::from_str_radix(it.next().expect("byte"), 16).expect("hex");
        let tail = unhex(it.next().unwrap_or(""));
        return filler_input(b, (1usize << 32) + 5, tail.as_bytes());
    }
    let bytes: Vec<u8> = (0..s.len() / 2)
        .map(|i| u8::from_str_radix(&s[2 * i..2 * i + 2], 16).expect("hex"))
        .collect();
    Some(String::from_utf8(bytes).expect("utf8 input"))
}

/// `n` times the ASCII byte `b`, then `tail`.  With `b` = NUL the filler is never written and never read here: the
/// allocator hands out untouched zero pages, so the gigabytes cost address space only - no memory is committed and
/// nothing depends on how fast this machine can fault in 4 GiB (a fresh VM: tens of seconds).
fn filler_input(b: u8, n: usize, tail: &[u8]) -> Option<String> {
    assert!(b < 0x80, "the filler byte is ASCII");
    assert!(std::str::from_utf8(tail).is_ok());
    let total = n + tail.len();
    let layout = std::alloc::Layout::array::<u8>(total).ok()?;
    // SAFETY: `p` is a fresh allocation of `total` bytes with the layout of a Vec<u8> of that capacity; all of
    // it is initialised (zeroed or filled, then the tail) before the Vec takes ownership.
    let v = unsafe {
        let p = if b == 0 { std::alloc::alloc_zeroed(layout) } else { std::alloc::alloc(layout) };
        if p.is_null() {
            return None;
        }
        if b != 0 {
            std::ptr::write_bytes(p, b, n);
        }
        std::ptr::copy_nonoverlapping(tail.as_ptr(), p.add(n), tail.len());
        Vec::from_raw_parts(p, total, total)
    };
    // SAFETY: ASCII filler followed by a valid UTF-8 tail is valid UTF-8 (no validating pass over the gigabytes)
    Some(unsafe { String::from_utf8_unchecked(v) })
}

pub type CaseFn = fn(&str, &str, bool) -> String;

/// main loop of a family runner: reads `gid \t hex(input)` lines from the case file, writes
/// one JSON line per case (flushed, so that a crash is attributable to the next case)
pub fn runner_main(table: &[(&'static str, CaseFn)]) {
    use std::io::{BufRead, Write};
    let args: Vec<String> = std::env::args().collect();
    if args.len() < 3 {
        eprintln!("usage: runner <cases.tsv> <out.jsonl> [skip] [--indented]");
        std::process::exit(2);
    }
    let skip: usize = args.get(3).and_then(|s| s.parse().ok()).unwrap_or(0);
    let with_indented = args.iter().any(|a| a == "--indented");
    std::panic::set_hook(Box::new(|_| {}));
    let map: std::collections::HashMap<&str, CaseFn> = table.iter().cloned().collect();
    if let Some(i) = args.iter().position(|a| a == "--threads") {
        let n: usize = args[i + 1].parse().expect("thread count");
        let rounds: usize = args
            .iter()
            .position(|a| a == "--rounds")
            .map(|j| args[j + 1].parse().expect("rounds"))
            .unwrap_or(1);
        threads_main(&map, &args[1], &args[2], n, rounds);
        return;
    }
    let f = std::fs::File::open(&args[1]).expect("case file");
    let mut out = std::fs::OpenOptions::new()
        .create(true)
        .append(true)
        .open(&args[2])
        .expect("out file");
    // every input is parsed out of ONE reused buffer: consecutive inputs share their address (and, often, their
    // length) - anything a parser remembers about "the input at this address" shows as a wrong result
    let mut buf = String::with_capacity(1 << 20);
    for (i, line) in std::io::BufReader::new(f).lines().enumerate() {
        if i < skip {
            continue;
        }
        let line = line.expect("line");
        let mut it = line.split('\t');
        let gid = it.next().unwrap();
        // announce the case first: if the process dies, the driver knows which case it was
        let _ = writeln!(out, "{{\"start\":{}}}", i);
        let _ = out.flush();
        let owned;
        let input: &str = {
            let fresh = match try_unhex(it.next().unwrap_or("")) {
                Some(s) => s,
                None => {
                    // not an outcome of the code under test: the driver reports the case as not run
                    let _ = writeln!(out, "{{\"g\":{},\"inp\":[-4],\"skipped\":\"cannot allocate the input\"}}", jstr(gid));
                    let _ = out.flush();
                    continue;
                }
            };
            if fresh.len() <= (1 << 20) {
                buf.clear();
                buf.push_str(&fresh);
                &buf
            } else {
                owned = fresh;
                &owned
            }
        };
        let js = match map.get(gid) {
            Some(f) => f(gid, input, with_indented),
            None => format!("{{\"g\":{},\"missing\":true}}", jstr(gid)),
        };
        let _ = writeln!(out, "{}", js);
        let _ = out.flush();
    }
}


/// C20: the same cases parsed concurrently from `n` threads (released together by a barrier, each
/// walking the case list in its own order, `rounds` times) must give exactly the outcome - result,
/// tracer callbacks, recorded advances - of a sequential run.  Writes one JSON summary line, then the
/// outcomes of every thread's first round (for trace validation).
fn threads_main(map: &std::collections::HashMap<&str, CaseFn>, cases: &str, out: &str, n: usize, rounds: usize) {
    use std::io::Write;
    let list: Vec<(String, String)> = std::fs::read_to_string(cases)
        .expect("case file")
        .lines()
        .map(|l| {
            let mut it = l.split('\t');
            (it.next().unwrap().to_string(), unhex(it.next().unwrap_or("")))
        })
        .collect();
    // (each thread parses out of its own reused buffer, see runner_main)
    let run = |i: usize, buf: &mut String| -> String {
        let (g, inp) = &list[i];
        let text: &str = if inp.len() <= (1 << 20) {
            buf.clear();
            buf.push_str(inp);
            buf
        } else {
            inp
        };
        match map.get(g.as_str()) {
            Some(f) => f(g, text, false),
            None => String::from("{\"missing\":true}"),
        }
    };
    let mut buf0 = String::with_capacity(1 << 20);
    let seq: Vec<String> = (0..list.len()).map(|i| run(i, &mut buf0)).collect();
    let barrier = std::sync::Barrier::new(n);
    let len = list.len();
    let results: Vec<(Vec<(usize, String)>, Vec<(usize, String)>)> = std::thread::scope(|s| {
        let handles: Vec<_> = (0..n)
            .map(|t| {
                let (seq, barrier, run) = (&seq, &barrier, &run);
                // deeply nested inputs are part of the corpora: stack size is not what is studied here
                std::thread::Builder::new().stack_size(256 << 20).spawn_scoped(s, move || {
                    let mut mismatches = Vec::new();
                    let mut first_round = Vec::new();
                    let mut buf = String::with_capacity(1 << 20);
                    barrier.wait();
                    for r in 0..rounds {
                        // a different walk through the cases per thread and round
                        let start = (t * 7919 + r * 104729) % len.max(1);
                        let mut step = 1 + 2 * ((t + r) % 50);
                        while gcd(step, len.max(1)) != 1 {
                            step += 1;
                        }
                        for j in 0..len {
                            let i = (start + step * j) % len;
                            let js = run(i, &mut buf);
                            if js != seq[i] && mismatches.len() < 5 {
                                mismatches.push((i, js.clone()));
                            }
                            if r == 0 && first_round.len() < 400 {
                                first_round.push((i, js));
                            }
                        }
                    }
                    (mismatches, first_round)
                })
                .expect("spawn")
            })
            .collect();
        handles.into_iter().map(|h| h.join().expect("thread")).collect()
    });
    let mut f = std::io::BufWriter::new(std::fs::File::create(out).expect("out file"));
    let mut mm = String::from("[");
    for (t, (mis, _)) in results.iter().enumerate() {
        for (i, js) in mis {
            if mm.len() > 1 {
                mm.push(',');
            }
            let _ = write!(mm, "{{\"thread\":{},\"case\":{},\"seq\":{},\"par\":{}}}", t, i, seq[*i], js);
        }
    }
    mm.push(']');
    let _ = writeln!(
        f,
        "{{\"threads\":{},\"rounds\":{},\"cases\":{},\"parses\":{},\"mismatches\":{}}}",
        n,
        rounds,
        len,
        n * rounds * len,
        mm
    );
    for (t, (_, first)) in results.iter().enumerate() {
        for (i, js) in first {
            let _ = writeln!(f, "{{\"thread\":{},\"case\":{},\"outcome\":{}}}", t, i, js);
        }
    }
}

fn gcd(a: usize, b: usize) -> usize {
    if b == 0 {
        a
    } else {
        gcd(b, a % b)
    }
}
